// sepdom.cpp — C19: environments (separate_domain over patricia trees) behave as total maps with
// default top, and patricia_tree_set as a mathematical set.
// Real code: patricia_trees.hpp (insert/remove/merge/compare/lookup/iterators), separate_domains.hpp.
// Keys are concrete indices chosen per job (bit patterns / layouts enumerated by the generator),
// values are symbolic intervals: every merge decision that depends on a value is decided by the solver.
#include "../hx.hpp"
#include <crab/domains/separate_domains.hpp>
#include <crab/domains/patricia_trees.hpp>
#include <crab/types/indexable.hpp>
using namespace hx;
using sx::term;
using sx::form;

struct key : public crab::indexable {
  ikos::index_t id;
  key(ikos::index_t i = 0) : id(i) {}
  ikos::index_t index() const override { return id; }
  void write(crab::crab_os &o) const override { o << "k" << id; }
  bool operator<(const key &o) const { return id < o.id; }
  bool operator==(const key &o) const { return id == o.id; }
};
typedef ikos::separate_domain<key, itv_t> env_t;
typedef ikos::patricia_tree_set<key> set_t;
typedef std::map<ikos::index_t, itv_t> ref_t; // reference: absent = top

static std::vector<ikos::index_t> KA, KB, KX; // keys of A, keys of B, extra probe keys
static std::string op;

static std::vector<ikos::index_t> parse_keys(const std::string &s) {
  std::vector<ikos::index_t> r;
  for (auto &x : hx::split_csv(s)) r.push_back(strtoull(x.c_str(), 0, 0));
  return r;
}
static itv_t sym_itv(const char *tag, int shapes) { // 0: [l,u]   1: [l,u] or a half line   2: also top
  term l = fresh((std::string(tag) + ".l").c_str()), u = fresh((std::string(tag) + ".u").c_str());
  long sh = 2;
  if (shapes > 0) {
    term s = fresh((std::string(tag) + ".shape").c_str());
    sx::assume(s >= term(shapes == 2 ? 1 : 2) && s <= term(4));
    sh = sx::concretise(s);
  }
  if (sh == 1) return itv_t::top();
  if (sh == 2) {
    sx::assume(l <= u);
    return itv_t(bnd_t(l.num()), bnd_t(u.num()));
  }
  if (sh == 3) return itv_t(bnd_t::minus_infinity(), bnd_t(u.num()));
  return itv_t(bnd_t(l.num()), bnd_t::plus_infinity());
}
static void put(ref_t &m, ikos::index_t k, const itv_t &v) {
  m.erase(k);
  m.insert({k, v});
}
static itv_t at(const ref_t &m, ikos::index_t k) {
  auto it = m.find(k);
  return it == m.end() ? itv_t::top() : it->second;
}
static std::vector<ikos::index_t> universe() {
  std::set<ikos::index_t> u(KA.begin(), KA.end());
  u.insert(KB.begin(), KB.end());
  u.insert(KX.begin(), KX.end());
  return std::vector<ikos::index_t>(u.begin(), u.end());
}
static void same_itv(const itv_t &a, const itv_t &b, const char *label) { check(form(B(a == b)), label); }
// env agrees with the reference on every key of the universe; iteration lists exactly the non-top bindings
static void agrees(const env_t &e, const ref_t &r, bool ref_bottom, const char *who) {
  std::string w(who);
  check(form(B(e.is_bottom()) == ref_bottom), (w + ":is_bottom").c_str());
  if (ref_bottom || e.is_bottom()) return;
  size_t nontop = 0;
  for (auto k : universe()) {
    itv_t rv = at(r, k);
    same_itv(e.at(key(k)), rv, (w + ":at(k) = pointwise reference").c_str());
    if (!B(rv.is_top())) nontop++;
  }
  std::map<ikos::index_t, int> seen;
  size_t n = 0;
  for (auto it = e.begin(); it != e.end(); ++it) {
    n++;
    seen[it->first.index()]++;
    check(form(!B(it->second.is_top())), (w + ":no top binding is stored").c_str());
    same_itv(it->second, at(r, it->first.index()), (w + ":iterated value").c_str());
  }
  bool once = true;
  for (auto &kv : seen) once = once && kv.second == 1;
  check(form(B(once && n == nontop && (nontop == 0 || e.size() == nontop))), (w + ":iteration lists exactly the non-top bindings once").c_str());
  check(form(B(e.is_top()) == (nontop == 0)), (w + ":is_top").c_str());
}

static void harness_env() {
  env_t A, Bv;
  ref_t ra, rb;
  int shapes = (int)sx::opts().geti("shapes", 1);
  for (auto k : KA) {
    itv_t v = sym_itv("a", shapes);
    A.set(key(k), v);
    if (!B(v.is_top())) put(ra, k, v); else ra.erase(k);
  }
  for (auto k : KB) {
    itv_t v = sym_itv("b", shapes);
    Bv.set(key(k), v);
    if (!B(v.is_top())) put(rb, k, v); else rb.erase(k);
  }
  agrees(A, ra, false, "A");
  agrees(Bv, rb, false, "B");
  env_t A0(A), B0(Bv);
  if (op == "join" || op == "meet" || op == "widen" || op == "narrow") {
    env_t R = op == "join" ? (A | Bv) : op == "meet" ? (A & Bv) : op == "widen" ? (A || Bv) : (A && Bv);
    ref_t rr;
    bool bot = false;
    for (auto k : universe()) {
      itv_t x = at(ra, k), y = at(rb, k);
      itv_t z = op == "join" ? (x | y) : op == "meet" ? (x & y) : op == "widen" ? (x || y) : (x && y);
      if (B(z.is_bottom())) bot = true;
      if (!B(z.is_top())) put(rr, k, z);
    }
    agrees(R, rr, bot, "R");
    agrees(A, ra, false, "A-after"); // operands unchanged (persistent trees)
    agrees(Bv, rb, false, "B-after");
  } else if (op == "leq") {
    bool le = B(A <= Bv);
    bool ref = true;
    for (auto k : universe()) ref = ref && B(at(ra, k) <= at(rb, k));
    check(form(le == ref), "<= holds exactly when it holds pointwise");
    check(form(B(A <= A) && B(env_t::bottom() <= A) && B(A <= env_t::top())), "reflexive / bottom / top");
    bool eq = B(A == Bv);
    bool refeq = true;
    for (auto k : universe()) refeq = refeq && B(at(ra, k) == at(rb, k));
    check(form(eq == refeq), "== holds exactly when it holds pointwise");
  } else if (op == "update") { // set / remove / join(k,v) / rename / project on A
    itv_t v = sym_itv("v", 2);
    ikos::index_t k0 = KA.empty() ? KX[0] : KA[0], kx = KX.empty() ? 77 : KX[0];
    A.set(key(kx), v);
    if (B(v.is_top())) ra.erase(kx); else put(ra, kx, v);
    agrees(A, ra, false, "after-set");
    A -= key(k0);
    ra.erase(k0);
    agrees(A, ra, false, "after-remove");
    if (KA.size() >= 2) {
      itv_t w = sym_itv("w", 1);
      A.join(key(KA[1]), w);
      itv_t j = at(ra, KA[1]) | w;
      if (B(j.is_top())) ra.erase(KA[1]); else put(ra, KA[1], j);
      agrees(A, ra, false, "after-join(k,v)");
    }
    if (KA.size() >= 2 && !KB.empty()) { // rename KA[1] -> a fresh key
      ikos::index_t to = KB[0];
      if (ra.find(to) == ra.end() && to != KA[1]) {
        A.rename({key(KA[1])}, {key(to)});
        if (ra.count(KA[1])) { put(ra, to, at(ra, KA[1])); ra.erase(KA[1]); }
        agrees(A, ra, false, "after-rename");
      }
    }
    std::vector<key> keep;
    ref_t rp;
    for (size_t i = 0; i < KA.size(); i += 2) { keep.push_back(key(KA[i])); if (ra.count(KA[i])) put(rp, KA[i], at(ra, KA[i])); }
    keep.push_back(key(kx));
    if (ra.count(kx)) put(rp, kx, at(ra, kx));
    A.project(keep);
    agrees(A, rp, false, "after-project");
    env_t C(A0);
    C.set(key(k0), itv_t::bottom());
    check(form(B(C.is_bottom())), "set(k, bottom) makes the environment bottom");
    agrees(A0, [&] { ref_t r0; for (auto k : KA) { itv_t x = A0.at(key(k)); if (!x.is_top()) put(r0, k, x); } return r0; }(), false, "copy-unchanged");
  }
}

static void harness_set() { // patricia_tree_set: union, intersection, difference, membership, subset
  set_t A, Bs;
  std::set<ikos::index_t> sa, sb;
  // membership of each candidate key is a symbolic Boolean
  for (auto k : KA) if (sx::decide(sx::fresh_bool("ina"))) { A += key(k); sa.insert(k); }
  for (auto k : KB) if (sx::decide(sx::fresh_bool("inb"))) { Bs += key(k); sb.insert(k); }
  set_t U = A | Bs, I = A & Bs, D = A;
  for (auto it = Bs.begin(); it != Bs.end(); ++it) D -= *it; // difference = removal of every element of B
  bool ok = true;
  for (auto k : universe()) {
    bool a = sa.count(k), b = sb.count(k);
    ok = ok && (U[key(k)] == (a || b)) && (I[key(k)] == (a && b)) && (D[key(k)] == (a && !b)) && (A[key(k)] == a) && (Bs[key(k)] == b);
  }
  check(form(B(ok)), "union / intersection / difference / membership are exact");
  bool sub = true;
  for (auto k : sa) sub = sub && sb.count(k);
  check(form(B(A <= Bs) == sub), "subset test is exact");
  size_t nu = 0, nmis = 0;
  std::set<ikos::index_t> listed;
  for (auto it = U.begin(); it != U.end(); ++it) { nu++; listed.insert((*it).index()); }
  for (auto k : universe()) if ((sa.count(k) || sb.count(k)) != (listed.count(k) > 0)) nmis++;
  check(form(B(nmis == 0 && nu == listed.size() && U.size() == nu)), "iteration lists each element once");
  check(form(B(A == A) && B((A == Bs) == (sa == sb))), "set equality");
  set_t E(A);
  for (auto k : KA) E -= key(k);
  check(form(B(E.empty())), "removing every candidate yields the empty set");
}

int main(int argc, char **argv) {
  sx::parse_args(argc, argv);
  KA = parse_keys(sx::opts().get("ka", "1,2,3"));
  KB = parse_keys(sx::opts().get("kb", "2,3,9"));
  KX = parse_keys(sx::opts().get("kx", "77"));
  op = sx::opts().get("op", "join");
  if (op == "set") return sx::run(argc, argv, harness_set);
  return sx::run(argc, argv, harness_env);
}
