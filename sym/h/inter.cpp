// inter.cpp — C09 (top-down inter-procedural analysis), C10 (bottom-up + top-down, -DBU=<dom>) and
// the inter-procedural clause of C02.  Real code: top_down_inter_analyzer (restrict/extend at call
// sites, calling contexts and summary reuse, recursion fixpoints, interleaved checker) resp.
// bottom_up_inter_analyzer (summaries, topological order of the SCC graph), call_graph, cg_bgl, wto.
// Oracle: the reference interpreter with call/return semantics (bounded call depth).
#include "../iprogs.hpp"
#include "../interp.hpp"
#include <crab/analysis/inter/top_down_inter_analyzer.hpp>
#ifdef BU
#include <crab/analysis/inter/bottom_up_inter_analyzer.hpp>
#include <crab/domains/split_dbm.hpp>
#endif
using namespace ipg;
typedef interp::machine<cfg_ref_t> machine_t;
typedef crab::analyzer::inter_analyzer_parameters<cg_t> params_t;
#ifdef BU
#if BU == 1
typedef itv_dom_t bu_dom_t;
#else
typedef split_dbm_domain<znum, varname_t, DBM_impl::BigNumDefaultParams<znum, DBM_impl::GraphRep::ss>> bu_dom_t;
#endif
typedef crab::analyzer::bottom_up_inter_analyzer<cg_t, bu_dom_t, dom_t> analyzer_t;
typedef bu_dom_t sum_dom_t;
#else
typedef crab::analyzer::top_down_inter_analyzer<cg_t, dom_t> analyzer_t;
typedef dom_t sum_dom_t;
#endif

static std::string prog;
static unsigned maxblocks, maxdepth;

// state in gamma_obs(inv) as a formula over the frame's values
template <class D> static sx::form gamma(const D &inv, machine_t &M, const std::vector<var_t> &vars) {
  if (hx::B(inv.is_bottom())) return sx::form(false);
  sx::form f(true);
  for (auto &v : vars) f = f && hx::mem(inv.at(v), M.get(v));
  auto csts = inv.to_linear_constraint_system();
  for (auto const &c : csts) {
    bool known = true;
    for (auto const &v : c.variables()) {
      bool in = false;
      for (auto &pv : vars) in = in || pv.index() == v.index();
      known = known && in;
    }
    if (known) f = f && M.eval(c);
  }
  return f;
}

struct ctx {
  iprogram *P;
  analyzer_t *A;
  unsigned blocks_left;
  bool cut = false; // the execution was cut by the recursion bound of the interpreter
  std::vector<std::pair<sx::form, std::string>> pending; // checks are decided at the end of the execution
};
static void later(ctx &C, const sx::form &f, const std::string &label) { C.pending.push_back({f, label}); }

static void run_function(ctx &C, func &f, machine_t &M, unsigned depth, bool &completed);

static void handle_call(ctx &C, func &caller, machine_t &M, machine_t::callsite_t &cs, unsigned depth) {
  func *callee = C.P->find(cs.get_func_name());
  if (!callee) throw sxe::no_verdict{"call to unknown function"};
  if (depth >= maxdepth) { // recursion bound of the interpreter: the execution is cut here
    C.cut = true;
    throw interp::stop_execution();
  }
  machine_t F;
  F.call_handler = [&C, callee, depth](machine_t &m, machine_t::callsite_t &s) { handle_call(C, *callee, m, s, depth + 1); };
  for (size_t i = 0; i < callee->ins.size(); i++) F.set(callee->ins[i], M.get(cs.get_args()[i]));
  std::vector<sx::term> in_vals;
  for (auto &v : callee->ins) in_vals.push_back(F.get(v));
  bool done = false;
  run_function(C, *callee, F, depth + 1, done);
  if (!done) throw interp::stop_execution(); // the callee did not return (assume failed / assertion violated / cut)
  // every stored (pre, post) summary relates inputs and outputs of this concrete call
  auto sum = C.A->get_summary(cfg_ref_t(*callee->cfg));
  for (auto it = sum.begin(); it != sum.end(); ++it) {
    machine_t Fin; // frame with the inputs only
    for (size_t i = 0; i < callee->ins.size(); i++) Fin.set(callee->ins[i], in_vals[i]);
    sx::form pre = gamma((*it).get_pre(), Fin, callee->ins);
    machine_t Fio;
    for (size_t i = 0; i < callee->ins.size(); i++) Fio.set(callee->ins[i], in_vals[i]);
    for (auto &v : callee->outs) Fio.set(v, F.get(v));
    std::vector<var_t> io = callee->ins;
    io.insert(io.end(), callee->outs.begin(), callee->outs.end());
    sx::form post = gamma((*it).get_post(), Fio, io);
    later(C, sx::implies(pre, post), "summary(" + callee->name + "): a call whose inputs satisfy the precondition is related by the postcondition");
  }
  for (size_t i = 0; i < callee->outs.size(); i++) M.set(cs.get_lhs()[i], F.get(callee->outs[i]));
}

static void run_function(ctx &C, func &f, machine_t &M, unsigned depth, bool &completed) {
  cfg_ref_t cfg(*f.cfg);
  if (!M.call_handler) M.call_handler = [&C, &f, depth](machine_t &m, machine_t::callsite_t &s) { handle_call(C, f, m, s, depth); };
  auto on_block = [&](const std::string &l, bool at_entry, machine_t &m) {
    dom_t inv = at_entry ? C.A->get_pre(cfg, l) : C.A->get_post(cfg, l);
    // known finding F24: a function whose exit the analysis found unreachable (a recursion that never returns)
    // has no stored invariants at all; only the blocks of such a function are excluded
    if (depth > 0 && sx::known("F24-diverging-recursion") && hx::B(C.A->get_post(cfg, cfg.exit()).is_bottom())) return;
    later(C, gamma(inv, m, f.vars), std::string(at_entry ? "pre(" : "post(") + f.name + "::" + l + ") contains the state");
  };
  unsigned budget = C.blocks_left;
  bool done = false;
  std::string last = M.run(cfg, cfg.entry(), budget, on_block, &done);
  C.blocks_left = C.blocks_left > M.labels_log.size() ? C.blocks_left - (unsigned)M.labels_log.size() : 0;
  completed = done && last == cfg.exit();
}

static void harness() {
  iprogram P;
  for (auto &s : hx::split_csv(sx::opts().get("sym", ""))) P.symset.insert(atoi(s.c_str()));
  P.range = sx::opts().geti("range", 0);
  ibuild(P, prog);
  std::vector<cfg_ref_t> cfgs;
  for (auto &f : P.funcs) cfgs.push_back(cfg_ref_t(*f->cfg));
  cg_t cg(cfgs);
  params_t params;
  params.widening_delay = sx::opts().geti("wd", 1);
  params.descending_iters = sx::opts().geti("di", 1);
  params.thresholds_size = sx::opts().geti("thr", 0);
  params.max_call_contexts = sx::opts().geti("ctx", 0) == 0 ? UINT_MAX : (unsigned)sx::opts().geti("ctx", 0);
  params.exact_summary_reuse = sx::opts().geti("exact", 1) != 0;
  params.analyze_recursive_functions = sx::opts().geti("rec", 0) != 0;
  params.only_main_as_entry = sx::opts().geti("mainonly", 1) != 0;
  params.run_checker = true;
  dom_t init = make_top();
#ifdef BU
  bu_dom_t bu_top;
  analyzer_t A(cg, init, bu_top, params);
#else
  analyzer_t A(cg, init, params);
#endif
  A.run(init);
  ctx C{&P, &A, maxblocks};
  func *mainf = P.find("main");
  machine_t M;
  bool done = false;
  run_function(C, *mainf, M, 0, done);
  // known finding F23 (see known_findings.json): joined calling contexts are unsound summaries; the whole
  // configuration (program, max_call_contexts) named in the finding is excluded
  bool skip = sx::known("F23-context-join") || sx::opts().get("only", "") == "verdicts"; // C02 jobs decide the verdicts only
  if (!skip)
    for (auto &pc : C.pending) sx::check(pc.first, pc.second.c_str());
#ifndef BU
  // inter-procedural checker verdicts (C02): SAFE / UNREACHABLE are never wrong
  auto db = A.get_all_checks();
  std::function<void(machine_t &)> dummy;
  (void)dummy;
  for (auto &as : M.asserts_seen) {
    auto it = P.assert_id.find(as.first);
    if (it == P.assert_id.end()) continue;
    const crab::cfg::debug_info &dbg = P.assert_dbg[it->second];
    if (!db.has_checks(dbg)) continue;
    for (auto k : db.get_checks(dbg)) {
      if (hx::B(k == crab::checker::check_kind::CRAB_SAFE)) sx::check(as.second, "inter-procedural verdict safe but the assertion can fail");
      if (hx::B(k == crab::checker::check_kind::CRAB_UNREACH)) sx::check(sx::form(false), "inter-procedural verdict unreachable but reached");
    }
  }
#endif
  sx::check(sx::form(true), "analysis-terminated");
}

int main(int argc, char **argv) {
  sx::parse_args(argc, argv);
  prog = sx::opts().get("prog", "call1");
  maxblocks = sx::opts().geti("blocks", 40);
  maxdepth = sx::opts().geti("depth", 5);
  return sx::run(argc, argv, harness);
}
