// lat3.cpp — C04 / C05 on operands over DIFFERENT VARIABLE SETS (4 variables): the real domain's join, meet,
// inclusion test, widening and narrowing on every pair of variable subsets.
// The two subsets are solver variables that the engine concretises (every feasible pair is explored); the
// left operand binds its variables to [0,5], the right operand to [l_v, u_v] with symbolic bounds for `nsym` of its
// variables and [1,4] for the others.
// z3 decides: join / widening describe a state of either operand (symbolic pick), meet a common state, a yes of
// the inclusion test is right, narrowing of a decreasing pair describes its second argument; and, for the
// interval domain, the widening (join) of two environments is the point-wise interval widening (join) of the
// bindings - the fact that lifts the ranking argument of interval widening chains (C08 harness) to environments.
#include "../domsel.hpp"
using namespace hx;
using namespace ds;
using sx::form;

static std::string op;
static int swap_operands = 0;
static const int N = 4;
static int NSYM = 1;

static form gamma(dom_t &d, const std::vector<sx::term> &s, const std::vector<var_t> &V) {
  if (B(d.is_bottom())) return form(false);
  form f(true);
  for (int i = 0; i < N; i++) f = f && mem(d.at(V[i]), s[i]);
  auto csts = d.to_linear_constraint_system();
  for (auto const &c : csts) {
    sx::term v(c.expression().constant());
    for (auto it = c.expression().begin(); it != c.expression().end(); ++it) {
      int idx = -1;
      for (int i = 0; i < N; i++)
        if (V[i].index() == (*it).second.index()) idx = i;
      if (idx < 0) throw sxe::no_verdict{"constraint over an unknown variable"};
      v = v + sx::term((*it).first) * s[idx];
    }
    if (c.is_inequality()) f = f && (v <= sx::term(0));
    else if (c.is_strict_inequality()) f = f && (v < sx::term(0));
    else if (c.is_equality()) f = f && (v == sx::term(0));
    else f = f && !(v == sx::term(0));
  }
  return f;
}

static void harness() {
  vfac_t vf;
  std::vector<var_t> V;
  for (int i = 0; i < N; i++) V.push_back(var_t(vf["v" + std::to_string(i)], crab::INT_TYPE, 32));
  sx::term ia = fresh("SA"), ib = fresh("SB");
  assume(ia >= sx::term(0) && ia <= sx::term(15) && ib >= sx::term(0) && ib <= sx::term(15));
  if (sx::opts().geti("sa", -1) >= 0) assume(ia == sx::term(sx::opts().geti("sa", 0)));
  long sa = concretise(ia), sb = concretise(ib);
  dom_t A = make_top(), Bv = make_top();
  std::vector<sx::term> s1, s2;
  int nsym = 0;
  for (int i = 0; i < N; i++) {
    sx::term x = fresh("x"), y = fresh("y");
    if (sa & (1 << i)) {
      A += lcsts_t(lcst_t(lexp_t(znum(0)) - lexp_t(V[i]), lcst_t::INEQUALITY));
      A += lcsts_t(lcst_t(lexp_t(V[i]) - lexp_t(znum(5)), lcst_t::INEQUALITY));
      assume(x >= sx::term(0) && x <= sx::term(5));
    }
    if (sb & (1 << i)) {
      // NSYM variables get symbolic bounds (the others [1,4], inside the left operand's [0,5])
      sx::term l(1), u(4);
      if (nsym < NSYM) {
        l = fresh("l");
        u = fresh("u");
        assume(l <= u);
        nsym++;
      }
      Bv += lcsts_t(lcst_t(lexp_t(l.num()) - lexp_t(V[i]), lcst_t::INEQUALITY));
      Bv += lcsts_t(lcst_t(lexp_t(V[i]) - lexp_t(u.num()), lcst_t::INEQUALITY));
      assume(y >= l && y <= u);
    }
    s1.push_back(x);
    s2.push_back(y);
  }
  if (swap_operands) {
    std::swap(A, Bv);
    std::swap(s1, s2);
  }
  dom_t A0(A), B0(Bv);
  if (op == "join" || op == "wid") {
    dom_t R = op == "join" ? (A | Bv) : (A || Bv);
    sx::term p = fresh("pick");
    assume(p >= sx::term(0) && p <= sx::term(1));
    std::vector<sx::term> s;
    for (int i = 0; i < N; i++) s.push_back(sx::ite(p == sx::term(1), s1[i], s2[i]));
    check(gamma(R, s, V), (op + " describes the states of both operands").c_str());
#if DOM == 1
    for (int i = 0; i < N; i++) {
      itv_t a = A0.at(V[i]), b = B0.at(V[i]);
      itv_t expect = op == "join" ? (a | b) : (a || b);
      check(form(B(R.at(V[i]) == expect)), (op + " of interval environments is point-wise").c_str());
    }
#endif
    // operands are unchanged
    check(gamma(A, s1, V) && gamma(Bv, s2, V), "operands unchanged");
  } else if (op == "meet") {
    form same(true);
    for (int i = 0; i < N; i++) same = same && (s1[i] == s2[i]);
    assume(same);
    dom_t R = A & Bv;
    check(gamma(R, s1, V), "meet describes the common states");
  } else if (op == "leq") {
    if (B(A <= Bv)) check(gamma(Bv, s1, V), "inclusion test answered yes: every state of the left operand is described by the right one");
    check(form(B(A <= A)) && form(B(Bv <= Bv)), "inclusion test is reflexive");
  } else if (op == "nar") {
    if (B(Bv <= A)) {
      dom_t R = A && Bv;
      check(gamma(R, s2, V), "narrowing of a decreasing pair describes its second argument");
    }
  } else
    throw sxe::no_verdict{"unknown-op"};
}
int main(int argc, char **argv) {
  sx::parse_args(argc, argv);
  op = sx::opts().get("op", "join");
  swap_operands = (int)sx::opts().geti("swap", 0);
  NSYM = (int)sx::opts().geti("nsym", 1);
  return sx::run(argc, argv, harness);
}
