// lincons.cpp — C20 (second half): linear expressions / constraints / systems keep their meaning.
// Real code: include/crab/types/linear_constraints.hpp over ikos::z_number.  Coefficients are
// enumerated per job (coefs=), constants and the valuation are symbolic and unbounded.
#include "../domsel.hpp"
using namespace hx;
using namespace ds;
using sx::term;
using sx::form;

static std::vector<long> CO;
static vfac_t *VF;
static std::vector<var_t> V;
static std::vector<term> S; // valuation

static term ev(const lexp_t &e, const std::vector<term> &s) {
  term r(e.constant());
  for (auto it = e.begin(); it != e.end(); ++it) {
    int idx = -1;
    for (size_t i = 0; i < V.size(); i++)
      if (V[i].index() == (*it).second.index()) idx = (int)i;
    if (idx < 0) throw sxe::no_verdict{"unknown-variable"};
    r = r + term((*it).first) * s[idx];
  }
  return r;
}
static form hold(const lcst_t &c, const std::vector<term> &s) {
  term v = ev(c.expression(), s);
  if (c.is_inequality()) return v <= term(0);
  if (c.is_strict_inequality()) return v < term(0);
  if (c.is_equality()) return v == term(0);
  return v != term(0);
}
static lexp_t mk(long a, long b, const term &c) { return lexp_t(znum(a), V[0]) + lexp_t(znum(b), V[1]) + lexp_t(c.num()); }

static void harness() {
  vfac_t vf;
  V.clear();
  S.clear();
  for (int i = 0; i < 4; i++) {
    V.push_back(var_t(vf["v" + std::to_string(i)], crab::INT_TYPE, 32));
    S.push_back(fresh("s"));
  }
  term c1 = fresh("c"), c2 = fresh("c"), k = fresh("k");
  lexp_t e1 = mk(CO[0], CO[1], c1), e2 = mk(CO[2], CO[3], c2);
  term v1 = term(CO[0]) * S[0] + term(CO[1]) * S[1] + c1, v2 = term(CO[2]) * S[0] + term(CO[3]) * S[1] + c2;
  // homomorphism
  check(ev(e1, S) == v1, "eval");
  check(ev(e1 + e2, S) == v1 + v2, "eval(e1+e2)");
  check(ev(e1 - e2, S) == v1 - v2, "eval(e1-e2)");
  check(ev(-e1, S) == -v1, "eval(-e)");
  check(ev(e1 * znum(CO[4]), S) == term(CO[4]) * v1, "eval(k*e)");
  check(ev(e1 + k.num(), S) == v1 + k, "eval(e+n)");
  check(ev(e1 - k.num(), S) == v1 - k, "eval(e-n)");
  check(ev(e1 + V[1], S) == v1 + S[1], "eval(e+x)");
  check(ev(e1 - V[0], S) == v1 - S[0], "eval(e-x)");
  check(form(B((e1 - e1).is_constant())) && term((e1 - e1).constant()) == term(0), "e-e is the constant 0");
  check(term(e1[V[0]]) == term(CO[0]) && term(e1[V[1]]) == term(CO[1]) && term(e1[V[2]]) == term(0), "coefficient lookup");
  // renaming: x0 -> x2 (fresh), valuation moves along
  {
    std::map<var_t, var_t> m;
    m.insert({V[0], V[2]});
    std::vector<term> s2 = S;
    s2[2] = S[0];
    check(ev(e1.rename(m), s2) == v1, "eval(rename(e))");
    lcst_t c(e1, lcst_t::INEQUALITY);
    check(iff(hold(c.rename(m), s2), hold(c, S)), "rename(constraint)");
  }
  // renamings that are not injective on the expression: x0 -> x1 (x1 occurs), and {x0 -> x2, x1 -> x2};
  // eval(rename(e, rho), sigma) == eval(e, sigma o rho) for every valuation sigma
  {
    std::map<var_t, var_t> m;
    m.insert({V[0], V[1]});
    std::vector<term> pre = S; // sigma o rho
    pre[0] = S[1];
    term expect = term(CO[0]) * pre[0] + term(CO[1]) * pre[1] + c1;
    check(ev(e1.rename(m), S) == expect, "eval(rename(e)), target occurs in e");
    for (int i = 0; i < 4; i++) {
      lcst_t c(e1, (lcst_t::kind_t[]){lcst_t::INEQUALITY, lcst_t::STRICT_INEQUALITY, lcst_t::EQUALITY, lcst_t::DISEQUATION}[i]);
      check(iff(hold(c.rename(m), S), hold(c, pre)), "rename(constraint), target occurs in e");
    }
    std::map<var_t, var_t> m2;
    m2.insert({V[0], V[2]});
    m2.insert({V[1], V[2]});
    std::vector<term> pre2 = S;
    pre2[0] = S[2];
    pre2[1] = S[2];
    term expect2 = term(CO[0]) * pre2[0] + term(CO[1]) * pre2[1] + c1;
    lexp_t r2 = e1.rename(m2);
    check(ev(r2, S) == expect2, "eval(rename(e)), two variables onto one");
    if (CO[0] + CO[1] == 0) { // the terms cancel: the renamed expression is constant and the tests on it are exact
      check(form(B(r2.is_constant())), "rename: cancelling terms leave a constant expression");
      lcst_t c(r2, lcst_t::INEQUALITY);
      bool taut = B(c.is_tautology()), contra = B(c.is_contradiction());
      check(iff(form(taut), c1 <= term(0)) && iff(form(contra), !(c1 <= term(0))), "tautology / contradiction exact after a cancelling renaming");
    }
  }
  // constraint negation is the exact complement over the integers
  lcst_t::kind_t kinds[4] = {lcst_t::INEQUALITY, lcst_t::STRICT_INEQUALITY, lcst_t::EQUALITY, lcst_t::DISEQUATION};
  for (int i = 0; i < 4; i++) {
    lcst_t c(e1, kinds[i]);
    lcst_t n = c.negate();
    check(iff(hold(n, S), !hold(c, S)), "negate is the complement");
    bool taut = B(c.is_tautology()), contra = B(c.is_contradiction());
    if (CO[0] == 0 && CO[1] == 0) { // constant constraint: the tests are exact
      check(iff(form(taut), hold(c, S)), "is_tautology exact on constant constraints");
      check(iff(form(contra), !hold(c, S)), "is_contradiction exact on constant constraints");
    } else {
      check(form(!taut && !contra), "non-constant constraints are neither");
    }
    if (taut) check(hold(c, S), "tautology holds");
    if (contra) check(!hold(c, S), "contradiction fails");
  }
  {
    lcst_t st(e1, lcst_t::STRICT_INEQUALITY);
    lcst_t ns = ikos::linear_constraint_impl::strict_to_non_strict_inequality(st);
    check(iff(hold(ns, S), hold(st, S)), "strict_to_non_strict preserves the solutions");
    lcst_t le(e1, lcst_t::INEQUALITY);
    lcst_t ng = ikos::linear_constraint_impl::negate_inequality(le);
    check(iff(hold(ng, S), !hold(le, S)), "negate_inequality");
    check(form(B(lcst_t::get_true().is_tautology()) && B(lcst_t::get_false().is_contradiction())), "get_true/get_false");
  }
  // normalisation of a system preserves its solution set
  {
    lcsts_t sys;
    sys += lcst_t(e1, lcst_t::INEQUALITY);
    sys += lcst_t(e2, lcst_t::INEQUALITY);
    sys += lcst_t(-e1, lcst_t::INEQUALITY); // e1 <= 0 and -e1 <= 0: merged into an equality
    sys += lcst_t(e2 - e1, lcst_t::STRICT_INEQUALITY);
    if (CO[5]) sys += lcst_t(-e2, lcst_t::INEQUALITY);
    lcsts_t nsys = sys.normalize();
    form a(true), b(true);
    for (auto const &c : sys) a = a && hold(c, S);
    for (auto const &c : nsys) b = b && hold(c, S);
    check(iff(a, b), "normalize preserves the solution set");
  }
}
int main(int argc, char **argv) {
  sx::parse_args(argc, argv);
  for (auto &s : hx::split_csv(sx::opts().get("coefs", "1,-1,2,0,3,1"))) CO.push_back(atol(s.c_str()));
  while (CO.size() < 6) CO.push_back(1);
  return sx::run(argc, argv, harness);
}
