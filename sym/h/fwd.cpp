// fwd.cpp — C01 (forward invariants contain every execution), C02 (safe/unreachable verdicts of
// the assertion checker are never wrong), C05 (the analysis run terminates on every path).
// Real code: intra_fwd_analyzer (fwd_analyzer.hpp), interleaved_fwd_fixpoint_iterator, wto,
// intra_abs_transformer, the selected abstract domain, liveness (optional), intra_checker +
// assert_property_checker.  Oracle: the reference interpreter of sym/interp.hpp on the same cfg.
#include "../progs.hpp"
#include "../interp.hpp"
#include <crab/analysis/fwd_analyzer.hpp>
#include <crab/analysis/dataflow/liveness.hpp>
#include <crab/checkers/assertion.hpp>
#include <crab/checkers/checker.hpp>
using namespace pg;

typedef crab::analyzer::intra_fwd_analyzer<cfg_ref_t, dom_t> analyzer_t;
typedef crab::analyzer::live_and_dead_analysis<cfg_ref_t> liveness_t;
typedef crab::checker::intra_checker<analyzer_t> checker_t;
typedef crab::checker::assert_property_checker<analyzer_t> assert_checker_t;
typedef interp::machine<cfg_ref_t> machine_t;

static std::string prog;
static unsigned wd, di, thr, maxblocks;
static bool use_live, run_checker;

static sx::form holds_cst(const lcst_t &c, machine_t &M) { return M.eval(c); }

static void check_state(const dom_t &inv, machine_t &M, program &P, const std::string &where) {
  if (hx::B(inv.is_bottom())) {
    sx::check(sx::form(false), (where + ":bottom-but-reached").c_str());
    return;
  }
  for (auto &v : P.vars) sx::check(hx::mem(inv.at(v), M.get(v)), (where + ":at").c_str());
  auto csts = inv.to_linear_constraint_system();
  for (auto const &c : csts) {
    bool known = true; // constraints over ghost variables of a lifting are not interpretable
    for (auto const &v : c.variables()) {
      bool f = false;
      for (auto &pv : P.vars) f = f || pv.index() == v.index();
      for (auto &pv : P.bvars) f = f || pv.index() == v.index();
      known = known && f;
    }
    if (known) sx::check(holds_cst(c, M), (where + ":constraint").c_str());
  }
}

static void harness() {
  program P;
  for (auto &s : hx::split_csv(sx::opts().get("sym", ""))) P.symset.insert(atoi(s.c_str()));
  P.range = sx::opts().geti("range", 0);
  build(P, prog);
  cfg_ref_t cfg(*P.cfg);
  crab::fixpoint_parameters fp;
  fp.get_widening_delay() = wd;
  fp.get_descending_iterations() = di;
  fp.get_max_thresholds() = thr;
  std::unique_ptr<liveness_t> live;
  if (use_live) {
    live.reset(new liveness_t(cfg));
    live->exec();
  }
  dom_t init = make_top();
  analyzer_t a(cfg, init, live.get(), fp);
  a.run(init);
  // checker verdicts
  crab::checker::checks_db db;
  if (run_checker) {
    typename checker_t::prop_checker_ptr prop(new assert_checker_t(0));
    checker_t chk(a, {prop});
    chk.run();
    db = chk.get_all_checks();
  }
  // concrete execution(s) of the same cfg from an arbitrary initial state
  machine_t M;
  M.run(cfg, cfg.entry(), maxblocks, [&](const std::string &l, bool at_entry, machine_t &m) {
    if (at_entry) check_state(a.get_pre(l), m, P, "pre(" + l + ")");
    else check_state(a.get_post(l), m, P, "post(" + l + ")");
  });
  if (run_checker) {
    for (auto &as : M.asserts_seen) {
      auto it = P.assert_id.find(as.first);
      if (it == P.assert_id.end()) continue;
      const crab::cfg::debug_info &dbg = P.assert_dbg[it->second];
      if (!db.has_checks(dbg)) continue;
      for (auto k : db.get_checks(dbg)) {
        if (hx::B(k == crab::checker::check_kind::CRAB_SAFE)) sx::check(as.second, "verdict-safe-but-assert-can-fail");
        if (hx::B(k == crab::checker::check_kind::CRAB_UNREACH)) sx::check(sx::form(false), "verdict-unreachable-but-reached");
      }
    }
  }
  sx::check(sx::form(true), "analysis-terminated");
}

int main(int argc, char **argv) {
  sx::parse_args(argc, argv);
  prog = sx::opts().get("prog", "loop");
  wd = sx::opts().geti("wd", 1);
  di = sx::opts().geti("di", 1);
  thr = sx::opts().geti("thr", 0);
  maxblocks = sx::opts().geti("blocks", 14);
  use_live = sx::opts().geti("live", 0) != 0;
  run_checker = sx::opts().geti("checker", 1) != 0;
  return sx::run(argc, argv, harness);
}
