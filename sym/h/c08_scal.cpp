// C08 — the other scalar abstractions: congruence<z_number>, interval_congruence<z_number>, sign<z_number>,
// constant<z_number>, dis_interval<z_number>, boolean_value.  Real code: congruence_impl.hpp / lib/congruence.cpp,
// interval_congruence_impl.hpp, sign_impl.hpp / lib/sign.cpp, constant_impl.hpp / lib/constant.cpp,
// dis_interval_impl.hpp / lib/dis_interval.cpp, lib/boolean.cpp - compiled unmodified against the symbolic number.
// Abstract operands: the *shape* (which sign, which modulus, how many disjuncts) is a solver variable that the
// engine concretises (every feasible shape is explored); residues / constants / interval bounds are symbolic where
// the class's own algorithms terminate on symbolic numbers (constants, interval bounds) and concretised otherwise
// (moduli and residues: gcd loops).  The members x, y of the operands are always symbolic: z3 decides
// x in gamma(a), y in gamma(b) => op(x, y) in gamma(a op# b), and the lattice facts, for all x, y.
#include "../hx.hpp"
#include <crab/domains/congruence.hpp>
#include <crab/domains/interval_congruence.hpp>
#include <crab/domains/sign.hpp>
#include <crab/domains/constant.hpp>
#include <crab/domains/dis_interval.hpp>
#include <crab/domains/boolean.hpp>
using namespace hx;

static std::string op, kind;
static long krange = 4, brange = 8, maxmod = 6, fin = 0;

static form conc_defined(const term &x, const term &y) {
  if (op == "div" || op == "srem") return y != term(0);
  if (op == "udiv" || op == "urem") return x >= term(0) && y > term(0);
  if (op == "shl" || op == "ashr") return y >= term(0) && y <= term(krange);
  if (op == "lshr") return x >= term(0) && y >= term(0) && y <= term(krange);
  if (op == "and" || op == "or" || op == "xor") return x >= term(-brange * 4) && x <= term(brange * 4) && y >= term(-brange * 4) && y <= term(brange * 4);
  return form(true);
}
static term pow2(const term &k) {
  term r(1);
  for (long i = krange; i >= 1; i--) r = ite(k >= term(i), r * term(2), r);
  return r;
}
static term conc(const term &x, const term &y) {
  if (op == "add") return x + y;
  if (op == "sub") return x - y;
  if (op == "mul") return x * y;
  if (op == "div" || op == "udiv") return tdiv(x, y);
  if (op == "srem" || op == "urem") return trem(x, y);
  if (op == "and") return bitop(0, x, y, 12);
  if (op == "or") return bitop(1, x, y, 12);
  if (op == "xor") return bitop(2, x, y, 12);
  if (op == "shl") return x * pow2(y);
  if (op == "ashr" || op == "lshr") return fdiv(x, pow2(y));
  throw sxe::no_verdict{"unknown-op"};
}
static bool is_lattice_op() { return op == "join" || op == "meet" || op == "widen" || op == "narrow" || op == "leq"; }

typedef ikos::congruence<znum> cg_t;
typedef crab::domains::interval_congruence<znum> ic_t;
typedef crab::domains::sign<znum> sg_t;
typedef crab::domains::constant<znum> ct_t;
typedef crab::domains::dis_interval<znum> di_t;
typedef crab::domains::boolean_value bv_t;
static form mem(const cg_t &c, const term &x);
static form mem(ic_t c, const term &x);
static form mem(const sg_t &s, const term &x);
static form mem(const ct_t &c, const term &x);
static form mem(const di_t &d, const term &x);

// ---------------------------------------------------------------- congruences
struct scg {
  cg_t v;
  long a, b; // modulus (0 = constant, -1 = bottom), residue
};
static scg fresh_cg(const char *tag) {
  scg r;
  term m = fresh((std::string(tag) + ".mod").c_str());
  assume(m >= term(-1) && m <= term(maxmod));
  r.a = concretise(m);
  r.b = 0;
  if (r.a == -1) {
    r.v = cg_t::bottom();
    return r;
  }
  term res = fresh((std::string(tag) + ".res").c_str());
  if (r.a == 0) assume(res >= term(-brange) && res <= term(brange));
  else assume(res >= term(0) && res < term(r.a));
  r.b = concretise(res);
  // aZ + b through the public interface; membership is always taken from the getters of the value actually built
  r.v = r.a == 0 ? cg_t(znum((int64_t)r.b)) : (cg_t::top() * cg_t(znum((int64_t)r.a))) + cg_t(znum((int64_t)r.b));
  return r;
}
static form mem(const cg_t &c, const term &x) {
  if (B(c.is_bottom())) return form(false);
  if (B(c.is_top())) return form(true);
  long a = concretise(term(c.get_modulo())), b = concretise(term(c.get_remainder()));
  if (a == 0) return x == term(b);
  return fmod(x - term(b), term(a < 0 ? -a : a)) == term(0);
}
static cg_t absop(const cg_t &a, const cg_t &b) {
  if (op == "add") return a + b;
  if (op == "sub") return a - b;
  if (op == "mul") return a * b;
  if (op == "div") return a / b;
  if (op == "udiv") return a.UDiv(b);
  if (op == "srem") return a.SRem(b);
  if (op == "urem") return a.URem(b);
  if (op == "and") return a.And(b);
  if (op == "or") return a.Or(b);
  if (op == "xor") return a.Xor(b);
  if (op == "shl") return a.Shl(b);
  if (op == "ashr") return a.AShr(b);
  if (op == "lshr") return a.LShr(b);
  throw sxe::no_verdict{"unknown-op"};
}
template <class T> static void lattice(const T &a, const T &b, bool has_widening = true) {
  term x = fresh("x");
  form ina = mem(a, x), inb = mem(b, x);
  if (op == "join") check(implies(ina || inb, mem(a | b, x)), "join contains both operands");
  else if (op == "meet") check(implies(ina && inb, mem(a & b, x)), "meet contains the common members");
  else if (op == "leq") {
    if (B(a <= b)) check(implies(ina, inb), "inclusion test answered yes");
    check(form(B(a <= a)), "inclusion test is reflexive");
  }
}
template <class T> static void lattice_wn(const T &a, const T &b) { // classes with widening / narrowing operators
  if (op == "widen") {
    term x = fresh("x");
    check(implies(mem(a, x) || mem(b, x), mem(a || b, x)), "widening contains both operands");
  } else if (op == "narrow") {
    term x = fresh("x");
    if (B(b <= a)) check(implies(mem(b, x), mem(a && b, x)), "narrowing of a decreasing pair contains its second argument");
  } else
    lattice(a, b);
}
static void h_cg() {
  scg a = fresh_cg("a"), b = fresh_cg("b");
  if (is_lattice_op()) {
    lattice_wn(a.v, b.v);
    return;
  }
  if (op == "neg") {
    term x = fresh("x");
    check(implies(mem(a.v, x), mem(-a.v, -x)), "sound");
    return;
  }
  cg_t r = absop(a.v, b.v);
  term x = fresh("x"), y = fresh("y");
  assume(mem(a.v, x) && mem(b.v, y) && conc_defined(x, y));
  if (op == "mul" || op == "div" || op == "udiv" || op == "srem" || op == "urem" || op == "shl" || op == "ashr" || op == "lshr")
    assume(x >= term(-24) && x <= term(24) && y >= term(-24) && y <= term(24)); // non-linear in x, y: keep the members small
  check(mem(r, conc(x, y)), "sound");
}

// ---------------------------------------------------------------- interval x congruence (reduced pair)
static form mem(ic_t c, const term &x) {
  if (B(c.is_bottom())) return form(false);
  return mem(c.first(), x) && mem(c.second(), x);
}
static void h_ic() {
  sitv ia = fresh_itv("ia", false, brange), ib = fresh_itv("ib", false, brange);
  if (ia.shape == 1 || ib.shape == 1 || ia.shape == 3 || ib.shape == 3) throw sxe::abort_path{"finite intervals and upper half lines only"};
  if (fin && (ia.shape != 2 || ib.shape != 2)) throw sxe::abort_path{"finite intervals only"};
  scg ca = fresh_cg("ca"), cb = fresh_cg("cb");
  if (ca.a == -1 || cb.a == -1) throw sxe::abort_path{"bottom component"};
  term x = fresh("x"), y = fresh("y");
  // the members are fixed BEFORE the reduction: reduce() must not lose them
  form inx = mem(ia.v, x) && mem(ca.v, x), iny = mem(ib.v, y) && mem(cb.v, y);
  ic_t a(itv_t(ia.v), cg_t(ca.v)), b(itv_t(ib.v), cg_t(cb.v));
  check(implies(inx, mem(a, x)), "reduction keeps the members");
  assume(inx && iny);
  if (op == "join") check(mem(a | b, x) && mem(a | b, y), "join contains both operands");
  else if (op == "meet") check(implies(x == y, mem(a & b, x)), "meet contains the common members");
  else {
    assume(conc_defined(x, y) && x >= term(-24) && x <= term(24) && y >= term(-24) && y <= term(24));
    ic_t r = op == "add" ? a + b : op == "sub" ? a - b : op == "mul" ? a * b : a / b;
    check(mem(r, conc(x, y)), "sound");
  }
}

// ---------------------------------------------------------------- signs
static sg_t mk_sign(long k) {
  switch (k) {
  case 0: return sg_t::bottom();
  case 1: return sg_t::top();
  case 2: return sg_t::mk_equal_zero();
  case 3: return sg_t::mk_less_than_zero();
  case 4: return sg_t::mk_greater_than_zero();
  case 5: return sg_t::mk_less_or_equal_than_zero();
  case 6: return sg_t::mk_greater_or_equal_than_zero();
  default: return sg_t::mk_not_equal_zero();
  }
}
static form mem(const sg_t &s, const term &x) {
  if (B(s.is_bottom())) return form(false);
  if (B(s.is_top())) return form(true);
  if (B(s.equal_zero())) return x == term(0);
  if (B(s.less_than_zero())) return x < term(0);
  if (B(s.greater_than_zero())) return x > term(0);
  if (B(s.less_or_equal_than_zero())) return x <= term(0);
  if (B(s.greater_or_equal_than_zero())) return x >= term(0);
  if (B(s.not_equal_zero())) return !(x == term(0));
  throw sxe::no_verdict{"sign: no query method answers yes"};
}
static void h_sg() {
  term ka = fresh("a.kind"), kb = fresh("b.kind");
  assume(ka >= term(0) && ka <= term(7) && kb >= term(0) && kb <= term(7));
  if (op == "cst") assume(kb == term(0)); // unary: the second operand is not used
  sg_t a = mk_sign(concretise(ka)), b = mk_sign(concretise(kb));
  if (is_lattice_op()) {
    if (op == "widen" || op == "narrow") throw sxe::abort_path{"signs have no widening"};
    lattice(a, b);
    return;
  }
  if (op == "cst") { // sign(Number) and the interval conversions
    term c = fresh("c");
    check(mem(sg_t(c.num()), c), "sign(c) contains c");
    sitv i = fresh_itv("i", true, 0);
    term x = fresh("x");
    check(implies(mem(i.v, x), mem(a.from_interval(i.v), x)), "from_interval contains the interval");
    check(implies(mem(a, x), mem(a.to_interval(), x)), "to_interval contains the sign");
    return;
  }
  sg_t r = op == "add" ? a + b : op == "sub" ? a - b : op == "mul" ? a * b : op == "div" ? a / b : op == "udiv" ? a.UDiv(b) : op == "srem" ? a.SRem(b)
         : op == "urem" ? a.URem(b) : op == "and" ? a.And(b) : op == "or" ? a.Or(b) : op == "xor" ? a.Xor(b) : op == "shl" ? a.Shl(b) : op == "lshr" ? a.LShr(b) : a.AShr(b);
  term x = fresh("x"), y = fresh("y");
  assume(mem(a, x) && mem(b, y) && conc_defined(x, y));
  if (op == "mul" || op == "div" || op == "udiv" || op == "srem" || op == "urem") assume(x >= term(-64) && x <= term(64) && y >= term(-64) && y <= term(64));
  check(mem(r, conc(x, y)), "sound");
}

// ---------------------------------------------------------------- constants
static form mem(const ct_t &c, const term &x) {
  if (B(c.is_bottom())) return form(false);
  if (B(c.is_top())) return form(true);
  return x == term(c.get_constant());
}
static ct_t fresh_ct(const char *tag, long rng) {
  term k = fresh((std::string(tag) + ".kind").c_str());
  assume(k >= term(0) && k <= term(2));
  long kk = concretise(k);
  if (kk == 0) return ct_t::bottom();
  if (kk == 1) return ct_t::top();
  term c = fresh((std::string(tag) + ".c").c_str());
  if (rng > 0) assume(c >= term(-rng) && c <= term(rng));
  return ct_t(c.num());
}
static void h_ct() {
  bool small = !(op == "add" || op == "sub" || is_lattice_op());
  ct_t a = fresh_ct("a", small ? 64 : 0), b = fresh_ct("b", small ? 64 : 0);
  if (is_lattice_op()) {
    lattice_wn(a, b);
    return;
  }
  ct_t r = op == "add" ? a.Add(b) : op == "sub" ? a.Sub(b) : op == "mul" ? a.Mul(b) : op == "div" ? a.SDiv(b) : op == "udiv" ? a.UDiv(b) : op == "srem" ? a.SRem(b)
         : op == "urem" ? a.URem(b) : op == "and" ? a.BitwiseAnd(b) : op == "or" ? a.BitwiseOr(b) : op == "xor" ? a.BitwiseXor(b) : op == "shl" ? a.BitwiseShl(b)
         : op == "lshr" ? a.BitwiseLShr(b) : a.BitwiseAShr(b);
  term x = fresh("x"), y = fresh("y");
  assume(mem(a, x) && mem(b, y) && conc_defined(x, y));
  if (small) assume(x >= term(-64) && x <= term(64) && y >= term(-64) && y <= term(64));
  check(mem(r, conc(x, y)), "sound");
}

// ---------------------------------------------------------------- disjunctive intervals
static form mem(const di_t &d, const term &x) {
  if (B(d.is_bottom())) return form(false);
  if (B(d.is_top())) return form(true);
  form f(false);
  for (auto it = d.begin(); it != d.end(); ++it) f = f || mem(*it, x);
  return f;
}
// a value made of n (0..maxn) intervals with symbolic bounds, built by the class's own join
static di_t fresh_di(const char *tag, long rng, form &in, const term &x, long maxn, bool finite_only) {
  term n = fresh((std::string(tag) + ".n").c_str());
  assume(n >= term(0) && n <= term(maxn));
  long nn = concretise(n);
  di_t r = di_t::bottom();
  in = form(false);
  for (long i = 0; i < nn; i++) {
    sitv p = fresh_itv((std::string(tag) + std::to_string(i)).c_str(), false, rng);
    if ((finite_only || fin) && p.shape != 2) throw sxe::abort_path{"finite intervals only for this operation"};
    r = r | di_t(p.v);
    in = in || mem(p.v, x);
  }
  return r;
}
static void h_di() {
  term x = fresh("x"), y = fresh("y");
  form ina(false), inb(false);
  bool lin = (op == "add" || op == "sub" || op == "neg" || is_lattice_op());
  bool lat = is_lattice_op();
  di_t a = fresh_di("a", lin ? 0 : brange, ina, x, 2, !lin), b = fresh_di("b", lin ? 0 : brange, inb, y, lat ? 2 : 1, !lin);
  // building the value by joins must not lose members
  check(implies(ina, mem(a, x)), "construction by joins keeps the members");
  if (op == "join") check(implies(ina, mem(a | b, x)) && implies(inb, mem(a | b, y)), "join contains both operands");
  else if (op == "widen") check(implies(ina, mem(a || b, x)) && implies(inb, mem(a || b, y)), "widening contains both operands");
  else if (op == "meet") check(implies(ina && inb && x == y, mem(a & b, x)), "meet contains the common members");
  else if (op == "narrow") {
    if (B(b <= a)) check(implies(inb, mem(a && b, y)), "narrowing of a decreasing pair contains its second argument");
  } else if (op == "leq") {
    if (B(a <= b)) check(implies(mem(a, x), mem(b, x)), "inclusion test answered yes");
    check(form(B(a <= a)), "inclusion test is reflexive");
    check(implies(mem(a, x), mem(a.approx(), x)), "approx() contains the value");
  } else if (op == "neg") check(implies(ina, mem(-a, -x)), "sound");
  else {
    assume(ina && inb && conc_defined(x, y));
    di_t r = op == "add" ? a + b : op == "sub" ? a - b : op == "mul" ? a * b : op == "div" ? a / b : op == "udiv" ? a.UDiv(b) : op == "srem" ? a.SRem(b)
           : op == "urem" ? a.URem(b) : op == "and" ? a.And(b) : op == "or" ? a.Or(b) : op == "xor" ? a.Xor(b) : op == "shl" ? a.Shl(b) : op == "lshr" ? a.LShr(b) : a.AShr(b);
    check(mem(r, conc(x, y)), "sound");
  }
}

// ---------------------------------------------------------------- three-valued Booleans
static bv_t mk_bv(long k) { return k == 0 ? bv_t::bottom() : k == 1 ? bv_t::top() : k == 2 ? bv_t::get_true() : bv_t::get_false(); }
static form mem(const bv_t &b, const form &x) {
  if (B(b.is_bottom())) return form(false);
  if (B(b.is_top())) return form(true);
  return B(b.is_true()) ? x : !x;
}
static void h_bv() {
  term ka = fresh("a.kind"), kb = fresh("b.kind");
  assume(ka >= term(0) && ka <= term(3) && kb >= term(0) && kb <= term(3));
  bv_t a = mk_bv(concretise(ka)), b = mk_bv(concretise(kb));
  form x = sx::fresh_bool("x"), y = sx::fresh_bool("y");
  form ina = mem(a, x), inb = mem(b, y);
  check(implies(ina && inb, mem(a.And(b), x && y)), "And is sound");
  check(implies(ina && inb, mem(a.Or(b), x || y)), "Or is sound");
  check(implies(ina && inb, mem(a.Xor(b), !iff(x, y))), "Xor is sound");
  check(implies(ina, mem(a.Negate(), !x)), "Negate is sound");
  check(implies(ina, mem(a | b, x)) && implies(inb, mem(a | b, y)), "join contains both operands");
  check(implies(ina, mem(a || b, x)) && implies(inb, mem(a || b, y)), "widening contains both operands");
  check(implies(ina && mem(b, x), mem(a & b, x)), "meet contains the common members");
  if (B(a <= b)) check(implies(ina, mem(b, x)), "inclusion test answered yes");
}

int main(int argc, char **argv) {
  sx::parse_args(argc, argv);
  op = sx::opts().get("op", "add");
  kind = sx::opts().get("kind", "cg");
  krange = sx::opts().geti("krange", 4);
  brange = sx::opts().geti("brange", 8);
  maxmod = sx::opts().geti("maxmod", 6);
  fin = sx::opts().geti("fin", 0); // 1: interval operands of finite shape only (quick tier)
  std::function<void()> h = kind == "cg" ? h_cg : kind == "ic" ? h_ic : kind == "sg" ? h_sg : kind == "ct" ? h_ct : kind == "di" ? h_di : h_bv;
  return sx::run(argc, argv, h);
}
