// c06b.cpp — C06 clause 2: with a real domain no extrapolation is applied while a loop head has
// been iterated at most widening_delay times: loops whose join-only iteration stabilises within
// the delay receive the join-only least fixpoint.
// Real code: intra_fwd_analyzer + the selected domain.  Reference: naive round-robin join-only
// iteration using the same real domain operations and the real intra_abs_transformer.
#include "../progs.hpp"
#include <crab/analysis/fwd_analyzer.hpp>
using namespace pg;
typedef crab::analyzer::intra_fwd_analyzer<cfg_ref_t, dom_t> analyzer_t;
typedef crab::analyzer::intra_abs_transformer<bb_t, dom_t> tr_t;

static std::string prog;
static unsigned wd;

static void harness() {
  program P;
  for (auto &s : hx::split_csv(sx::opts().get("sym", ""))) P.symset.insert(atoi(s.c_str()));
  P.range = sx::opts().geti("range", 2);
  build(P, prog);
  cfg_ref_t cfg(*P.cfg);
  crab::fixpoint_parameters fp;
  fp.get_widening_delay() = wd;
  fp.get_descending_iterations() = sx::opts().geti("di", 1);
  fp.get_max_thresholds() = 0;
  dom_t init = make_top();
  analyzer_t a(cfg, init, nullptr, fp);
  a.run(init);
  // reference: join-only Kleene iteration
  std::vector<std::string> labels;
  for (auto it = cfg.label_begin(); it != cfg.label_end(); ++it) labels.push_back(*it);
  std::map<std::string, dom_t> pre, post;
  for (auto &l : labels) {
    pre.insert({l, init.make_bottom()});
    post.insert({l, init.make_bottom()});
  }
  bool stable = false;
  for (unsigned round = 0; round < 6 * wd && !stable; round++) {
    stable = true;
    for (auto &l : labels) {
      dom_t in = (l == cfg.entry()) ? init : init.make_bottom();
      for (auto p : cfg.prev_nodes(l)) in |= post.at(p);
      dom_t np = pre.at(l) | in;
      if (!(np <= pre.at(l))) stable = false;
      pre.at(l) = np;
      tr_t tr(np);
      for (auto &s : cfg.get_node(l)) s.accept(&tr);
      post.at(l) = tr.get_abs_value();
    }
  }
  if (!stable) throw sxe::abort_path{"join-only-iteration-not-stable"};
  // the clause applies when no loop head was iterated more than widening_delay times
  struct visits : public ikos::wto_component_visitor<cfg_ref_t> {
    unsigned mx = 0;
    void visit(ikos::wto_vertex<cfg_ref_t> &) override {}
    void visit(ikos::wto_cycle<cfg_ref_t> &c) override {
      mx = std::max(mx, c.get_fixpo_visits());
      for (auto i = c.begin(); i != c.end(); ++i) i->accept(this);
    }
  } vs;
  a.get_wto().accept(&vs);
  if (vs.mx > wd) throw sxe::abort_path{"a-loop-head-was-iterated-more-than-widening-delay-times"};
  for (auto &l : labels) {
    dom_t ap = a.get_pre(l), aq = a.get_post(l);
    sx::check(sx::form(hx::B(ap <= pre.at(l)) && hx::B(pre.at(l) <= ap)), "pre = join-only least fixpoint");
    sx::check(sx::form(hx::B(aq <= post.at(l)) && hx::B(post.at(l) <= aq)), "post = join-only least fixpoint");
    for (auto &v : P.vars) {
      ds::itv_t x = ap.at(v), y = pre.at(l).at(v);
      sx::check(sx::form(hx::B(x <= y) && hx::B(y <= x)), "same bounds");
    }
  }
}
int main(int argc, char **argv) {
  sx::parse_args(argc, argv);
  prog = sx::opts().get("prog", "loop");
  wd = sx::opts().geti("wd", 8);
  return sx::run(argc, argv, harness);
}
