// xform.cpp — C17 (CFG transformations preserve behaviour) and C18 (liveness / assertion crawler
// facts over-approximate real dependences).
// Real code: cfg::simplify() (merge_blocks_rec, remove_unreachable_blocks, remove_useless_blocks),
// transforms::dead_code_elimination (+ liveness_analysis, killgen_fixpoint_iterator),
// transforms::lower_safe_assertions (after a real analysis + checker), live_and_dead_analysis,
// assertion_crawler.  The code under test is structural; what the solver decides is the
// universally quantified statement about EXECUTIONS: twin runs of the reference interpreter on
// the original and the transformed cfg (resp. on a perturbed state) from the same symbolic initial
// state, with the same havoc values and the same route.
#include "../progs.hpp"
#include "../interp.hpp"
#include <crab/analysis/fwd_analyzer.hpp>
#include <crab/analysis/dataflow/liveness.hpp>
#include <crab/analysis/dataflow/assertion_crawler.hpp>
#include <crab/checkers/assertion.hpp>
#include <crab/checkers/checker.hpp>
#include <crab/transforms/dce.hpp>
#include <crab/transforms/lower_safe_assertions.hpp>
using namespace pg;
typedef interp::machine<cfg_ref_t> machine_t;
typedef crab::analyzer::intra_fwd_analyzer<cfg_ref_t, dom_t> fwd_t;
typedef crab::checker::intra_checker<fwd_t> checker_t;
typedef crab::checker::assert_property_checker<fwd_t> assert_checker_t;

static std::string prog, mode;
static unsigned maxblocks;

static void setup(program &P, const std::vector<sx::term> *reuse) {
  for (auto &s : hx::split_csv(sx::opts().get("sym", ""))) P.symset.insert(atoi(s.c_str()));
  P.range = sx::opts().geti("range", 0);
  P.reuse = reuse;
  build(P, prog);
}
// compare the recorded conditions of two runs: same number, same truth values
static void same_trace(machine_t &A, machine_t &Bm, const char *what) {
  std::string w(what);
  sx::check(sx::form(hx::B(!Bm.lost)), (w + ": the route exists in the other cfg").c_str());
  if (Bm.lost) return;
  sx::check(sx::form(hx::B(A.trace.size() == Bm.trace.size())), (w + ": same number of evaluated conditions").c_str());
  size_t n = std::min(A.trace.size(), Bm.trace.size());
  for (size_t i = 0; i < n; i++) sx::check(sx::iff(A.trace[i].cond, Bm.trace[i].cond), (w + ": same outcome of every condition / assertion").c_str());
}
static void same_outputs(machine_t &A, machine_t &Bm, program &P, const char *what) {
  for (auto &v : P.outputs) sx::check(A.get(v) == Bm.get(v), what);
}
static void wellformed(cfg_t &c, const std::string &entry, const char *what) {
  bool ok = c.entry() == entry;
  bool sym = true;
  std::set<std::string> labels;
  for (auto &bb : c) labels.insert(bb.label());
  ok = ok && labels.count(c.entry());
  if (c.has_exit()) ok = ok && labels.count(c.exit());
  for (auto &bb : c) {
    for (auto it = bb.next_blocks().first; it != bb.next_blocks().second; ++it) {
      if (!labels.count(*it)) { sym = false; continue; }
      auto &nb = c.get_node(*it);
      bool back = false;
      for (auto jt = nb.prev_blocks().first; jt != nb.prev_blocks().second; ++jt) back = back || *jt == bb.label();
      sym = sym && back;
    }
    for (auto it = bb.prev_blocks().first; it != bb.prev_blocks().second; ++it) {
      if (!labels.count(*it)) { sym = false; continue; }
      auto &pb = c.get_node(*it);
      bool fwd = false;
      for (auto jt = pb.next_blocks().first; jt != pb.next_blocks().second; ++jt) fwd = fwd || *jt == bb.label();
      sym = sym && fwd;
    }
  }
  sx::check(sx::form(hx::B(ok)), (std::string(what) + ": entry and exit kept").c_str());
  sx::check(sx::form(hx::B(sym)), (std::string(what) + ": edges are symmetric").c_str());
}

static void h_transform() {
  program P1, P2;
  setup(P1, nullptr);
  setup(P2, &P1.consts);
  cfg_t &c1 = *P1.cfg, &c2 = *P2.cfg;
  // ---- the transformation under test, applied to the second copy
  if (mode == "simplify") c2.simplify();
  else if (mode == "dce") {
    crab::transforms::dead_code_elimination<cfg_ref_t> dce;
    cfg_ref_t rr(c2);
    dce.run(rr);
  } else if (mode == "dce+simplify") {
    crab::transforms::dead_code_elimination<cfg_ref_t> dce;
    cfg_ref_t rr(c2);
    dce.run(rr);
    c2.simplify();
  } else if (mode == "lower") {
    cfg_ref_t r2(c2);
    dom_t top = make_top();
    crab::fixpoint_parameters fp;
    fwd_t a(r2, top, nullptr, fp);
    a.run(top);
    typename checker_t::prop_checker_ptr prop(new assert_checker_t(0));
    checker_t chk(a, {prop});
    chk.run();
    std::set<const cfg_ref_t::statement_t *> safe(prop->get_safe_checks().begin(), prop->get_safe_checks().end());
    crab::transforms::lower_safe_assertions<cfg_ref_t> lsa(safe);
    lsa.run(r2);
  } else
    throw sxe::no_verdict{"unknown-mode"};
  wellformed(c2, c1.entry(), "transformed cfg");
  machine_t::env_t init;
  std::string dir = sx::opts().get("dir", "fwd");
  cfg_ref_t r1(c1), r2(c2);
  auto nop = [](const std::string &, bool, machine_t &) {};
  if (dir == "fwd") { // every exit-reaching execution of the original has a counterpart
    machine_t M1;
    M1.shared_init = &init;
    bool done = false;
    std::string last = M1.run(r1, r1.entry(), maxblocks, nop, &done);
    if (!(done && c1.has_exit() && last == c1.exit())) { // only executions that end at the exit block are compared
      sx::check(sx::form(true), "execution does not reach the exit");
      return;
    }
    machine_t M2;
    M2.shared_init = &init;
    M2.guided = true;
    M2.follow = &M1.labels_log;
    M2.havoc_src = &M1.havoc_log;
    bool done2 = false;
    std::string last2 = M2.run(r2, r2.entry(), maxblocks + 4, nop, &done2);
    same_trace(M1, M2, "original -> transformed");
    sx::check(sx::form(hx::B(M2.lost || (done2 && last2 == c2.exit()))), "the counterpart also ends at the exit");
    if (!M2.lost) same_outputs(M1, M2, P1, "same final values of the function outputs");
  } else { // the transformed cfg has no other exit-reaching executions
    machine_t M2;
    M2.shared_init = &init;
    bool done = false;
    std::string last = M2.run(r2, r2.entry(), maxblocks, nop, &done);
    if (!(done && c2.has_exit() && last == c2.exit())) {
      sx::check(sx::form(true), "execution does not reach the exit");
      return;
    }
    machine_t M1;
    M1.shared_init = &init;
    M1.guided = true;
    M1.follow = &M2.labels_log;
    M1.havoc_src = &M2.havoc_log;
    bool done1 = false;
    std::string last1 = M1.run(r1, r1.entry(), maxblocks + 8, nop, &done1);
    same_trace(M2, M1, "transformed -> original");
    sx::check(sx::form(hx::B(M1.lost || (done1 && last1 == c1.exit()))), "the original execution also ends at the exit");
    if (!M1.lost) same_outputs(M2, M1, P1, "same final values of the function outputs");
  }
}

static void h_liveness() { // a variable dead at the end of a block never influences the rest of the execution
  program P;
  setup(P, nullptr);
  cfg_ref_t r(*P.cfg);
  crab::analyzer::live_and_dead_analysis<cfg_ref_t> live(r);
  live.exec();
  machine_t::env_t init;
  auto nop = [](const std::string &, bool, machine_t &) {};
  machine_t M1;
  M1.shared_init = &init;
  bool done = false;
  std::string last = M1.run(r, r.entry(), maxblocks, nop, &done);
  bool stopped_by_cond = !done && M1.labels_log.size() < maxblocks;
  std::vector<var_t> all = P.vars;
  all.insert(all.end(), P.bvars.begin(), P.bvars.end());
  std::set<std::pair<std::string, unsigned>> seen;
  std::map<std::string, unsigned> visits;
  for (size_t pos = 0; pos < M1.labels_log.size(); pos++) {
    const std::string &b = M1.labels_log[pos];
    unsigned k = ++visits[b];
    if (pos + 1 == M1.labels_log.size() && !done) break; // the block was not completed
    auto dead = live.dead_exit(b);
    if (dead.is_bottom() || dead.is_top()) continue;
    for (auto it = dead.begin(); it != dead.end(); ++it) {
      var_t v = *it;
      machine_t M2;
      M2.shared_init = &init;
      M2.guided = true;
      M2.follow = &M1.labels_log;
      M2.havoc_src = &M1.havoc_log;
      if (stopped_by_cond) M2.stop_events = M1.trace.size();
      M2.pert_on = true;
      M2.pert_at_exit = true;
      M2.pert_label = b;
      M2.pert_visit = k;
      M2.pert_var = v.index();
      bool d2 = false;
      M2.run(r, r.entry(), (unsigned)M1.labels_log.size(), nop, &d2);
      same_trace(M1, M2, "dead variable perturbed");
      if (done && P.cfg->has_exit() && last == P.cfg->exit() && !M2.lost) same_outputs(M1, M2, P, "dead variable perturbed: same function outputs");
    }
  }
  sx::check(sx::form(true), "ran");
}

static void h_crawler() { // a variable not reported for (block, assertion) cannot influence that assertion's condition
  program P;
  setup(P, nullptr);
  cfg_ref_t r(*P.cfg);
  typedef crab::analyzer::assertion_crawler<cfg_ref_t> crawler_t;
  typename crawler_t::assert_map_t assert_map;
  typename crawler_t::summary_map_t summaries;
  crawler_t crawler(r, assert_map, summaries);
  crawler.exec();
  machine_t::env_t init;
  auto nop = [](const std::string &, bool, machine_t &) {};
  machine_t M1;
  M1.shared_init = &init;
  bool done = false;
  M1.run(r, r.entry(), maxblocks, nop, &done);
  bool stopped_by_cond = !done && M1.labels_log.size() < maxblocks;
  std::vector<var_t> all = P.vars;
  std::map<std::string, unsigned> visits;
  for (size_t pos = 0; pos < M1.labels_log.size(); pos++) {
    const std::string &b = M1.labels_log[pos];
    unsigned k = ++visits[b];
    auto facts = crawler.get_results(b);
    // reported[assert statement] = variables
    std::map<const void *, std::set<ikos::index_t>> reported;
    if (!facts.is_bottom() && !facts.is_top())
      for (auto it = facts.begin(); it != facts.end(); ++it) {
        std::set<ikos::index_t> vs;
        auto vars = it->second;
        if (!vars.is_top() && !vars.is_bottom())
          for (auto vt = vars.begin(); vt != vars.end(); ++vt) vs.insert((*vt).index());
        reported[(const void *)&(it->first.get())] = vs;
      }
    for (auto &v : all) {
      machine_t M2;
      M2.shared_init = &init;
      M2.guided = true;
      M2.follow = &M1.labels_log;
      M2.havoc_src = &M1.havoc_log;
      if (stopped_by_cond) M2.stop_events = M1.trace.size();
      M2.pert_on = true;
      M2.pert_at_exit = false;
      M2.pert_label = b;
      M2.pert_visit = k;
      M2.pert_var = v.index();
      M2.run(r, r.entry(), (unsigned)M1.labels_log.size(), nop, nullptr);
      // every assertion evaluated from this point on: if v is not reported for it at b, its condition cannot
      // change - as long as the two runs still agree on every earlier condition (same route)
      sx::form agree(true);
      size_t n = std::min(M1.trace.size(), M2.trace.size());
      for (size_t i = 0; i < n; i++) {
        if (M1.trace[i].stmt != M2.trace[i].stmt) break;
        if (M1.trace[i].kind == "assert" && M1.trace[i].pos >= pos) {
          auto rt = reported.find(M1.trace[i].stmt);
          bool listed = rt != reported.end() && rt->second.count(v.index());
          if (!hx::B(listed))
            sx::check(sx::implies(agree, sx::iff(M1.trace[i].cond, M2.trace[i].cond)), "a variable not reported for the assertion cannot change its condition");
        }
        agree = agree && sx::iff(M1.trace[i].cond, M2.trace[i].cond);
      }
    }
  }
  sx::check(sx::form(true), "ran");
}

int main(int argc, char **argv) {
  sx::parse_args(argc, argv);
  prog = sx::opts().get("prog", "deadcode");
  mode = sx::opts().get("mode", "dce");
  maxblocks = sx::opts().geti("blocks", 10);
  if (mode == "liveness") return sx::run(argc, argv, h_liveness);
  if (mode == "crawler") return sx::run(argc, argv, h_crawler);
  return sx::run(argc, argv, h_transform);
}
