// dom.cpp — operation histories over a real crab abstract domain (C03, C04, C05, C16).
//
// Two abstract values A and B are built from top by the operation sequence given in seq=
// (operation kinds and variable/coefficient choices are enumerated by the generator; every
// constant, bound and concrete value is symbolic).  Alongside each abstract value the harness
// carries a concrete state (one sx::term per variable) obtained by applying the corresponding
// CONCRETE operations; after every step the solver decides, for all values on the path,
//   state in gamma_obs(value):  !is_bottom, state[v] in at(v), every exported constraint holds,
// for BOTH values (so an operation on one value that disturbs the other is caught, C16).
#include "../domsel.hpp"
#include <crab/fixpoint/thresholds.hpp>
using namespace hx;
using namespace ds;

static int NV = 2;       // program variables; indices NV.. are spare (rename/expand targets)
static long CR = 0;      // range of symbolic constants (0 = unbounded); needed by machine-weight DBMs
static long KR = 3;      // range of multiplicative / divisor / shift constants
static bool probe = false;

template <class D> struct World {
  vfac_t vf;
  std::vector<var_t> V;
  D A, B;
  std::vector<sx::term> sA, sB;
  std::vector<sx::term> *rec; // inputs recorded by the first world, replayed by the second
  size_t rpos = 0;
  bool recording;
  World(D top, std::vector<sx::term> *r, bool recd) : A(top), B(top), rec(r), recording(recd) {
    for (int i = 0; i < NV + 2; i++) V.push_back(var_t(vf["v" + std::to_string(i)], crab::INT_TYPE, 32));
    for (int i = 0; i < NV + 2; i++) {
      sA.push_back(in("s"));
      sB.push_back(in("t"));
    }
  }
  sx::term in(const char *tag) {
    if (recording) {
      sx::term t = fresh(tag);
      rec->push_back(t);
      return t;
    }
    return (*rec)[rpos++];
  }
  // a constant of the operation under execution: symbolic unless the op string fixes it
  // (op:c1:c2... ; '?' = symbolic).  Constants flow into crab (they fork); states do not.
  std::vector<std::string> consts;
  size_t cpos = 0;
  sx::term cst(const char *tag) {
    if (cpos < consts.size() && consts[cpos] != "?") {
      const std::string &spec = consts[cpos++];
      size_t plus = spec.find("+?");
      if (plus == std::string::npos) return sx::term(atol(spec.c_str()));
      // "B+?": a symbolic constant in [B - 4, B + 4] (large magnitudes for machine-weight domains)
      long base = atol(spec.substr(0, plus).c_str());
      sx::term t = in(tag);
      if (recording) assume(t >= sx::term(base - 4) && t <= sx::term(base + 4));
      return t;
    }
    cpos++;
    sx::term t = in(tag);
    if (recording && CR > 0) assume(t >= sx::term(-CR) && t <= sx::term(CR));
    return t;
  }
  sx::form inb(const char *tag) { // symbolic Boolean input, encoded as an integer 0/1 input
    sx::term t = in(tag);
    if (recording) assume(t >= sx::term(0) && t <= sx::term(1));
    return t == sx::term(1);
  }
};

static std::vector<std::string> split(const std::string &s, char c) {
  std::vector<std::string> r;
  std::string cur;
  for (char ch : s) {
    if (ch == c) {
      r.push_back(cur);
      cur.clear();
    } else
      cur += ch;
  }
  r.push_back(cur);
  return r;
}

static sx::form rel(const std::string &r, const sx::term &a, const sx::term &b) {
  if (r == "le") return a <= b;
  if (r == "lt") return a < b;
  if (r == "eq") return a == b;
  return a != b;
}
static lcst_t mkcst(const std::string &r, const lexp_t &e) { // e REL 0
  if (r == "le") return lcst_t(e, lcst_t::INEQUALITY);
  if (r == "lt") return lcst_t(e, lcst_t::STRICT_INEQUALITY);
  if (r == "eq") return lcst_t(e, lcst_t::EQUALITY);
  return lcst_t(e, lcst_t::DISEQUATION);
}
static sx::term evalexp(const lexp_t &e, const std::vector<sx::term> &s, const std::vector<var_t> &V) {
  sx::term r(e.constant());
  for (auto it = e.begin(); it != e.end(); ++it) {
    const var_t &v = (*it).second;
    int idx = -1;
    for (size_t i = 0; i < V.size(); i++)
      if (V[i].index() == v.index()) idx = (int)i;
    if (idx < 0) throw sxe::no_verdict{"exported-constraint-over-unknown-variable"};
    r = r + sx::term((*it).first) * s[idx];
  }
  return r;
}
static sx::form holds(const lcst_t &c, const std::vector<sx::term> &s, const std::vector<var_t> &V) {
  sx::term v = evalexp(c.expression(), s, V);
  if (c.is_inequality()) return v <= sx::term(0);
  if (c.is_strict_inequality()) return v < sx::term(0);
  if (c.is_equality()) return v == sx::term(0);
  return v != sx::term(0);
}

template <class D> static void check_sound(const D &d, const std::vector<sx::term> &s, const std::vector<var_t> &V, const char *who) {
  std::string w(who);
  if (B(d.is_bottom())) {
    check(sx::form(false), (w + ":not-bottom").c_str());
    return;
  }
  for (int i = 0; i < NV + 2; i++) check(mem(d.at(V[i]), s[i]), (w + ":at").c_str());
  auto csts = d.to_linear_constraint_system();
  for (auto const &c : csts) check(holds(c, s, V), (w + ":exported-constraint").c_str());
  if (probe && NV >= 2) {
    sx::term k = fresh("probe");
    bool e1 = B(d.entails(lcst_t(lexp_t(V[0]) - lexp_t(V[1]) - lexp_t(k.num()), lcst_t::INEQUALITY)));
    if (e1) check(s[0] - s[1] <= k, (w + ":entails").c_str());
  }
}

struct ext { // bound observed through at(): finite flag + value
  bool fin;
  sx::term v;
};
template <class D> static std::vector<ext> snap(const D &d, const std::vector<var_t> &V, bool &bot) {
  std::vector<ext> r;
  bot = B(d.is_bottom());
  if (bot) return r;
  for (int i = 0; i < NV + 2; i++) {
    itv_t x = d.at(V[i]);
    boost::optional<znum> l = x.lb().number(), u = x.ub().number();
    r.push_back(ext{B((bool)l), l ? sx::term(*l) : sx::term(0)});
    r.push_back(ext{B((bool)u), u ? sx::term(*u) : sx::term(0)});
  }
  return r;
}
static void same_snap(const std::vector<ext> &a, bool ba, const std::vector<ext> &b, bool bb, const char *label) {
  sx::form f(ba == bb && a.size() == b.size());
  if (ba == bb && a.size() == b.size())
    for (size_t i = 0; i < a.size(); i++) f = f && sx::form(a[i].fin == b[i].fin) && (a[i].fin && b[i].fin ? (a[i].v == b[i].v) : sx::form(true));
  check(f, label);
}

static crab::domains::arith_operation_t arith(const std::string &o) {
  using namespace crab::domains;
  if (o == "add") return OP_ADDITION;
  if (o == "sub") return OP_SUBTRACTION;
  if (o == "mul") return OP_MULTIPLICATION;
  if (o == "sdiv") return OP_SDIV;
  if (o == "udiv") return OP_UDIV;
  if (o == "srem") return OP_SREM;
  if (o == "urem") return OP_UREM;
  throw sxe::no_verdict{"bad-arith-op"};
}
static crab::domains::bitwise_operation_t bitw(const std::string &o) {
  using namespace crab::domains;
  if (o == "and") return OP_AND;
  if (o == "or") return OP_OR;
  if (o == "xor") return OP_XOR;
  if (o == "shl") return OP_SHL;
  if (o == "lshr") return OP_LSHR;
  if (o == "ashr") return OP_ASHR;
  throw sxe::no_verdict{"bad-bitwise-op"};
}
static sx::term pow2(const sx::term &k, long kmax) {
  sx::term r(1);
  for (long i = kmax; i >= 1; i--) r = ite(k >= sx::term(i), r * sx::term(2), r);
  return r;
}
// concrete semantics of an arithmetic / bitwise operation; `def` = when it is defined
static sx::term conc_op(const std::string &o, const sx::term &x, const sx::term &y, sx::form &def) {
  def = sx::form(true);
  if (o == "add") return x + y;
  if (o == "sub") return x - y;
  if (o == "mul") return x * y;
  if (o == "sdiv") { def = y != sx::term(0); return tdiv(x, y); }
  if (o == "srem") { def = y != sx::term(0); return trem(x, y); }
  if (o == "udiv") { def = x >= sx::term(0) && y > sx::term(0); return tdiv(x, y); }
  if (o == "urem") { def = x >= sx::term(0) && y > sx::term(0); return trem(x, y); }
  sx::form small = x >= sx::term(-2047) && x <= sx::term(2047) && y >= sx::term(-2047) && y <= sx::term(2047);
  if (o == "and") { def = small; return bitop(0, x, y, 12); }
  if (o == "or") { def = small; return bitop(1, x, y, 12); }
  if (o == "xor") { def = small; return bitop(2, x, y, 12); }
  if (o == "shl") { def = y >= sx::term(0) && y <= sx::term(KR); return x * pow2(y, KR); }
  if (o == "ashr") { def = y >= sx::term(0) && y <= sx::term(KR); return fdiv(x, pow2(y, KR)); }
  if (o == "lshr") { def = x >= sx::term(0) && y >= sx::term(0) && y <= sx::term(KR); return fdiv(x, pow2(y, KR)); }
  throw sxe::no_verdict{"bad-op"};
}
static bool is_bitw(const std::string &o) { return o == "and" || o == "or" || o == "xor" || o == "shl" || o == "lshr" || o == "ashr"; }

template <class D> static void step(World<D> &W, const std::string &opstr, bool extra_queries) {
  std::vector<std::string> oc = split(opstr, ':');
  W.consts.assign(oc.begin() + 1, oc.end());
  W.cpos = 0;
  std::vector<std::string> a = split(oc[0], '.');
  const std::string &op = a[0];
  auto I = [&](size_t i) { return atoi(a.at(i).c_str()); };
  D &A = W.A;
  std::vector<sx::term> &s = W.sA;
  std::vector<var_t> &V = W.V;
  if (op == "bnd" || op == "lb" || op == "ub") {
    int v = I(1);
    if (op != "ub") {
      sx::term l = W.cst("l");
      A += lcsts_t(lcst_t(lexp_t(l.num()) - lexp_t(V[v]), lcst_t::INEQUALITY));
      assume(l <= s[v]);
    }
    if (op != "lb") {
      sx::term u = W.cst("u");
      A += lcsts_t(lcst_t(lexp_t(V[v]) - lexp_t(u.num()), lcst_t::INEQUALITY));
      assume(s[v] <= u);
    }
  } else if (op == "cst") { // cst.rel.p.v.q.w : p*v + q*w REL k
    sx::term k = W.cst("k");
    lexp_t e = lexp_t(znum(I(2)), V[I(3)]) + lexp_t(znum(I(4)), V[I(5)]) - lexp_t(k.num());
    A += lcsts_t(mkcst(a[1], e));
    assume(rel(a[1], sx::term(I(2)) * s[I(3)] + sx::term(I(4)) * s[I(5)], k));
  } else if (op == "cst1") { // cst1.rel.p.v : p*v REL k
    sx::term k = W.cst("k");
    lexp_t e = lexp_t(znum(I(2)), V[I(3)]) - lexp_t(k.num());
    A += lcsts_t(mkcst(a[1], e));
    assume(rel(a[1], sx::term(I(2)) * s[I(3)], k));
  } else if (op == "asg") { // asg.v.p.w : v := p*w + k
    sx::term k = W.cst("k");
    A.assign(V[I(1)], lexp_t(znum(I(2)), V[I(3)]) + lexp_t(k.num()));
    s[I(1)] = sx::term(I(2)) * s[I(3)] + k;
  } else if (op == "asgk") { // asgk.v : v := k
    sx::term k = W.cst("k");
    A.assign(V[I(1)], lexp_t(k.num()));
    s[I(1)] = k;
  } else if (op == "asg2") { // asg2.v.p.w.q.u : v := p*w + q*u + k
    sx::term k = W.cst("k");
    A.assign(V[I(1)], lexp_t(znum(I(2)), V[I(3)]) + lexp_t(znum(I(4)), V[I(5)]) + lexp_t(k.num()));
    s[I(1)] = sx::term(I(2)) * s[I(3)] + sx::term(I(4)) * s[I(5)] + k;
  } else if (op == "ari") { // ari.op.v.w.u : v := w op u
    sx::form def(true);
    sx::term r = conc_op(a[1], s[I(3)], s[I(4)], def);
    assume(def);
    if (is_bitw(a[1])) A.apply(bitw(a[1]), V[I(2)], V[I(3)], V[I(4)]);
    else A.apply(arith(a[1]), V[I(2)], V[I(3)], V[I(4)]);
    s[I(2)] = r;
  } else if (op == "arik") { // arik.op.v.w : v := w op k   (k symbolic; small for mul/div/shift)
    sx::term k = W.cst("k");
    if (a[1] != "add" && a[1] != "sub") assume(k >= sx::term(-KR) && k <= sx::term(KR));
    sx::form def(true);
    sx::term r = conc_op(a[1], s[I(3)], k, def);
    assume(def);
    if (is_bitw(a[1])) A.apply(bitw(a[1]), V[I(2)], V[I(3)], k.num());
    else A.apply(arith(a[1]), V[I(2)], V[I(3)], k.num());
    s[I(2)] = r;
  } else if (op == "sel") { // sel.v.rel.w.u1.u2 : v := (w REL k) ? u1 : u2
    sx::term k = W.cst("k");
    lcst_t c = mkcst(a[2], lexp_t(V[I(3)]) - lexp_t(k.num()));
    A.select(V[I(1)], c, lexp_t(V[I(4)]), lexp_t(V[I(5)]));
    s[I(1)] = ite(rel(a[2], s[I(3)], k), s[I(4)], s[I(5)]);
  } else if (op == "fgt") {
    A -= V[I(1)];
    s[I(1)] = W.in("h");
  } else if (op == "fgtv") { // forget(vector)
    typename D::variable_vector_t vs;
    for (size_t i = 1; i < a.size(); i++) {
      vs.push_back(V[I(i)]);
      s[I(i)] = W.in("h");
    }
    A.forget(vs);
  } else if (op == "prj") { // project on the listed variables
    typename D::variable_vector_t vs;
    std::vector<bool> keep(NV + 2, false);
    for (size_t i = 1; i < a.size(); i++) {
      vs.push_back(V[I(i)]);
      keep[I(i)] = true;
    }
    A.project(vs);
    for (int i = 0; i < NV + 2; i++)
      if (!keep[i]) s[i] = W.in("h");
  } else if (op == "ren") { // ren.v.w : rename v to the (unconstrained) spare w
    typename D::variable_vector_t from{V[I(1)]}, to{V[I(2)]};
    A -= V[I(2)];
    A.rename(from, to);
    s[I(2)] = s[I(1)];
    // known finding F10: fixed_tvpi_domain::rename is an unimplemented no-op; with the finding
    // excluded the old name is required to keep its value (the weaker, still checkable contract)
    if (!sx::known("F10-tvpi-rename-unimplemented")) s[I(1)] = W.in("h");
  } else if (op == "exp") { // exp.v.w : w becomes a copy of v
    A -= V[I(2)];
    A.expand(V[I(1)], V[I(2)]);
    s[I(2)] = s[I(1)];
  } else if (op == "cpy") {
    W.B = W.A;
    W.sB = W.sA;
  } else if (op == "cpyc") { // copy-construct and move-assign
    D tmp(W.A);
    W.B = std::move(tmp);
    W.sB = W.sA;
  } else if (op == "swp") {
    std::swap(W.A, W.B);
    std::swap(W.sA, W.sB);
  } else if (op == "join" || op == "joineq" || op == "wid" || op == "widt") {
#if DOM == 15
    // known finding F35: the widening of lookahead_widening_domain assumes an increasing pair (left <= right)
    if ((op == "wid" || op == "widt") && sx::known("F35-lookahead-widening-nonincreasing") && !B(A <= W.B))
      throw sxe::abort_path{"F35: lookahead widening of a non-increasing pair"};
#endif
    sx::form pick = W.inb("pick");
    if (op == "join") A = A | W.B;
    else if (op == "joineq") A |= W.B;
    else if (op == "wid") A = A || W.B;
    else {
      crab::thresholds<znum> ts(10);
      for (int i = 0; i < 2; i++) {
        sx::term t = W.cst("thr");
        ts.add(bnd_t(t.num()));
      }
      A = A.widening_thresholds(W.B, ts);
    }
    for (int i = 0; i < NV + 2; i++) s[i] = ite(pick, s[i], W.sB[i]);
  } else if (op == "meet" || op == "meeteq") {
    sx::form same(true);
    for (int i = 0; i < NV + 2; i++) same = same && (s[i] == W.sB[i]);
    assume(same);
    if (op == "meet") A = A & W.B;
    else A &= W.B;
  } else if (op == "nar") { // narrowing of a decreasing pair contains its second argument
    if (B(W.B <= A)) {
      A = A && W.B;
      s = W.sB;
    }
  } else if (op == "norm") {
    A.normalize();
  } else if (op == "min") {
    A.minimize();
  } else if (op == "top") {
    A.set_to_top();
    for (int i = 0; i < NV + 2; i++) s[i] = W.in("h");
  } else if (op == "leq") { // C04: inclusion test
    bool le = B(A <= W.B);
    if (le) check_sound(W.B, s, V, "leq-yes:B");
    check(sx::form(B(A <= A)), "leq-reflexive");
    D bot = A.make_bottom(), top = A.make_top();
    check(sx::form(B(bot <= A)), "bottom-leq");
    check(sx::form(B(A <= top)), "leq-top");
    check(sx::form(B(bot.is_bottom()) && B(top.is_top()) && !B(top.is_bottom())), "make_bottom/make_top");
    D c1(A), c2(A);
    c1.set_to_bottom();
    c2.set_to_top();
    check(sx::form(B(c1.is_bottom()) && B(c2.is_top())), "set_to_bottom/set_to_top");
    if (B(A.is_top())) check(sx::form(B(top <= A)), "is_top-means-top");
  } else if (op == "nop") {
  } else
    throw sxe::no_verdict{"unknown-op"};
  if (extra_queries) { // read-only queries and explicit normalisation (C16)
    (void)A.is_bottom();
    (void)A.is_top();
    (void)A.at(V[0]);
    D cp(A);
    (void)cp.to_linear_constraint_system();
    (void)A.to_linear_constraint_system();
    (void)A.entails(lcst_t(lexp_t(V[0]) - lexp_t(znum(7)), lcst_t::INEQUALITY));
    A.normalize();
    A.minimize();
    (void)W.B.at(V[NV - 1]);
  }
}

static std::vector<std::string> seq;
static std::string mode;

template <class D1, class D2> static void harness2(D1 top1, D2 top2, bool q2) {
  // differential mode: the same history on two worlds (C16): plain vs. interleaved with
  // queries/normalize/minimize, or unwrapped domain vs. generic wrapper
  std::vector<sx::term> rec;
  World<D1> W1(top1, &rec, true);
  for (auto &o : seq) step(W1, o, false);
  World<D2> W2(top2, &rec, false);
  for (auto &o : seq) step(W2, o, q2);
  bool b1, b2, c1, c2;
  auto a1 = snap(W1.A, W1.V, b1), a2 = snap(W2.A, W2.V, b2);
  same_snap(a1, b1, a2, b2, "same-observations:A");
  auto x1 = snap(W1.B, W1.V, c1), x2 = snap(W2.B, W2.V, c2);
  same_snap(x1, c1, x2, c2, "same-observations:B");
  check(sx::form(B(W1.A.is_top()) == B(W2.A.is_top())), "same-is_top");
  check_sound(W2.A, W2.sA, W2.V, "second-world:A");
}

// C12 (liftings): the same straight-line history on the base domain and on the lifting: every variable
// bound reported by the lifting is at least as tight as the base domain's
#ifdef DOM_HAS_BASE
static void harness_lift() {
  std::vector<sx::term> rec;
  World<base_t> W1(base_t(), &rec, true);
  for (auto &o : seq) step(W1, o, false);
  World<dom_t> W2(make_top(), &rec, false);
  for (auto &o : seq) step(W2, o, false);
  bool b1 = B(W1.A.is_bottom()), b2 = B(W2.A.is_bottom());
  sx::check(sx::form(!(b1 && !b2)), "lifting is bottom whenever the base is");
  if (!b1 && !b2)
    for (int i = 0; i < NV + 2; i++) {
      itv_t x = W1.A.at(W1.V[i]), y = W2.A.at(W2.V[i]);
      sx::check(sx::form(B(y <= x)), "lifting reports bounds at least as tight as its base");
    }
  check_sound(W2.A, W2.sA, W2.V, "lifting:A");
}
#endif

static void harness() {
#ifdef DOM_HAS_BASE
  if (mode == "c12l") {
    harness_lift();
    return;
  }
#endif
  if (mode == "c16q") {
    harness2<dom_t, dom_t>(make_top(), make_top(), true);
    return;
  }
#ifdef DOM_WRAPPED
  if (mode == "c16w") {
    wrapped_t w;
    harness2<wrapped_t, dom_t>(w, make_top(), false);
    return;
  }
#endif
  std::vector<sx::term> rec;
  World<dom_t> W(make_top(), &rec, true);
  for (size_t i = 0; i < seq.size(); i++) {
    bool bb, ba;
    std::vector<ext> before = snap(W.B, W.V, bb);
    std::string opn = split(split(seq[i], ':')[0], '.')[0];
    bool touchesB = opn == "cpy" || opn == "cpyc" || opn == "swp";
    step(W, seq[i], false);
    check_sound(W.A, W.sA, W.V, "A");
    check_sound(W.B, W.sB, W.V, "B");
    if (!touchesB) { // value semantics: an operation on A leaves every observation of B unchanged
      std::vector<ext> after = snap(W.B, W.V, ba);
      same_snap(before, bb, after, ba, "B-unchanged");
    }
  }
}

int main(int argc, char **argv) {
  sx::parse_args(argc, argv);
  NV = (int)sx::opts().geti("nv", 2);
  KR = sx::opts().geti("kr", 3);
  CR = sx::opts().geti("cr", 0);
  probe = sx::opts().geti("probe", 0) != 0;
  mode = sx::opts().get("mode", "sound");
  seq = split(sx::opts().get("seq", "bnd.0"), ',');
  return sx::run(argc, argv, harness);
}
