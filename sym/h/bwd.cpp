// bwd.cpp — C11 (backward analysis returns necessary preconditions) and the forward+backward
// clause of C02.  Real code: necessary_preconditions_fixpoint_iterator (bwd_analyzer.hpp),
// intra_necessary_preconditions_abs_transformer, BackwardAssignOps, intra_forward_backward_analyzer
// (discharge_assertions, dominance), intra_checker + assert_property_checker.
#include "../progs.hpp"
#include "../interp.hpp"
#include <crab/analysis/fwd_analyzer.hpp>
#include <crab/analysis/bwd_analyzer.hpp>
#include <crab/checkers/assertion.hpp>
#include <crab/checkers/checker.hpp>
using namespace pg;
typedef crab::analyzer::intra_fwd_analyzer<cfg_ref_t, dom_t> fwd_t;
typedef crab::analyzer::necessary_preconditions_fixpoint_iterator<cfg_ref_t, dom_t> bwd_t;
typedef crab::analyzer::intra_forward_backward_analyzer<cfg_ref_t, dom_t> fb_t;
typedef crab::checker::intra_checker<fb_t> checker_t;
typedef crab::checker::assert_property_checker<fb_t> assert_checker_t;
typedef interp::machine<cfg_ref_t> machine_t;

static std::string prog, mode;
static unsigned maxblocks;

static void check_state(const dom_t &inv, machine_t::env_t &env, machine_t &M, program &P, const std::string &where) {
  if (hx::B(inv.is_bottom())) {
    sx::check(sx::form(false), (where + ":empty-but-needed").c_str());
    return;
  }
  machine_t::env_t saved = M.env;
  M.env = env;
  for (auto &v : P.vars) sx::check(hx::mem(inv.at(v), M.get(v)), (where + ":at").c_str());
  auto csts = inv.to_linear_constraint_system();
  for (auto const &c : csts) {
    bool known = true;
    for (auto const &v : c.variables()) {
      bool f = false;
      for (auto &pv : P.vars) f = f || pv.index() == v.index();
      known = known && f;
    }
    if (known) sx::check(M.eval(c), (where + ":constraint").c_str());
  }
  M.env = saved;
}

static void harness() {
  program P;
  for (auto &s : hx::split_csv(sx::opts().get("sym", ""))) P.symset.insert(atoi(s.c_str()));
  P.range = sx::opts().geti("range", 0);
  build(P, prog);
  cfg_ref_t cfg(*P.cfg);
  crab::fixpoint_parameters fp;
  fp.get_widening_delay() = sx::opts().geti("wd", 1);
  fp.get_descending_iterations() = sx::opts().geti("di", 1);
  fp.get_max_thresholds() = 0;
  dom_t top = make_top();
  std::vector<std::pair<std::string, machine_t::env_t>> visited;
  machine_t M;
  auto record = [&](const std::string &l, bool at_entry, machine_t &m) {
    if (at_entry) {
      for (auto &v : P.vars) m.get(v); // materialise every variable's current value
      visited.push_back({l, m.env});
    }
  };
  if (mode == "error" || mode == "error-inv" || mode == "good") {
    bool good = mode == "good";
    bwd_t B(cfg, top, good, fp);
    std::unordered_map<std::string, dom_t> fwd_inv;
    if (mode == "error-inv") {
      fwd_t F(cfg, top, nullptr, fp);
      F.run(top);
      for (auto it = cfg.label_begin(); it != cfg.label_end(); ++it) fwd_inv.insert({*it, F.get_pre(*it)});
      B.run_backward(top.make_bottom(), fwd_inv);
    } else if (good) {
      // good final states: x0 <= G at the exit, G symbolic
      dom_t post = top;
      sx::term G = sx::fresh("G");
      if (P.range > 0) sx::assume(G >= sx::term(-2 * P.range) && G <= sx::term(8 * P.range)); // machine-weight domains concretise every constant
      post += lcsts_t(lcst_t(lexp_t(P.vars[0]) - lexp_t(G.num()), lcst_t::INEQUALITY));
      B.run_backward(post);
      bool completed = false;
      std::string last = M.run(cfg, cfg.entry(), maxblocks, record, &completed);
      if (completed && last == cfg.exit()) {
        if (sx::decide(M.get(P.vars[0]) <= G)) // the execution ends in a good final state
          for (auto &vs : visited) check_state(B[vs.first], vs.second, M, P, "good-pre(" + vs.first + ")");
      }
      sx::check(sx::form(true), "ran");
      return;
    } else
      B.run_backward(top.make_bottom());
    M.run(cfg, cfg.entry(), maxblocks, record);
    if (M.assert_failed) // every state on the way to a violation lies in the necessary precondition
      for (auto &vs : visited) check_state(B[vs.first], vs.second, M, P, "error-pre(" + vs.first + ")");
    sx::check(sx::form(true), "ran");
  } else { // forward+backward analyzer + checker (C02)
    fb_t A(cfg, top);
    crab::analyzer::fwd_bwd_parameters bp;
    bp.enable_backward() = sx::opts().geti("bwd", 1) != 0;
    bp.get_max_refine_iterations() = sx::opts().geti("refine", 5);
    bp.get_use_refined_invariants() = sx::opts().geti("refined", 0) != 0;
    typename fb_t::assumption_map_t assumptions;
    A.run(top, assumptions, nullptr, fp, bp);
    typename checker_t::prop_checker_ptr prop(new assert_checker_t(0));
    checker_t chk(A, {prop});
    chk.run();
    crab::checker::checks_db db = chk.get_all_checks();
    M.run(cfg, cfg.entry(), maxblocks, [&](const std::string &, bool, machine_t &) {});
    for (auto &as : M.asserts_seen) {
      auto it = P.assert_id.find(as.first);
      if (it == P.assert_id.end()) continue;
      const crab::cfg::debug_info &dbg = P.assert_dbg[it->second];
      if (!db.has_checks(dbg)) continue;
      for (auto k : db.get_checks(dbg)) {
        if (hx::B(k == crab::checker::check_kind::CRAB_SAFE)) sx::check(as.second, "verdict-safe-but-assert-can-fail");
        if (hx::B(k == crab::checker::check_kind::CRAB_UNREACH)) {
          // known finding F22: with use_refined_invariants the stored invariants only describe error-reaching
          // states, so 'unreachable' means 'cannot fail here'; with the finding excluded it is checked as such
          if (sx::known("F22-refined-invariants-unreachable")) sx::check(as.second, "verdict-unreachable(refined invariants)-but-assert-can-fail");
          else sx::check(sx::form(false), "verdict-unreachable-but-reached");
        }
      }
    }
    sx::check(sx::form(true), "ran");
  }
}
int main(int argc, char **argv) {
  sx::parse_args(argc, argv);
  prog = sx::opts().get("prog", "bsel");
  mode = sx::opts().get("mode", "error");
  maxblocks = sx::opts().geti("blocks", 12);
  return sx::run(argc, argv, harness);
}
