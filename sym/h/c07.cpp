// c07.cpp — weak topological orderings are well-formed for every graph.
// Real code: ikos::wto<G> (wto.hpp: visit(), component(), nesting_builder, nesting()).
// The graph is a set of symbolic adjacency bits read through the engine: the real algorithm runs
// once per feasible combination of the bits it inspects; every final assertion is a formula over
// ALL bits (reference reachability is a formula), decided by the solver.
#include "../sx.hpp"
#include <boost/graph/graph_traits.hpp>
#include <boost/iterator/iterator_facade.hpp>
#include <crab/domains/interval.hpp>
#include <vector>
using sx::form;

static int NVX = 3;
static int ENTRY = 0;
static std::vector<int> ORDER; // successor enumeration order (a permutation of the nodes)
static std::vector<std::vector<int>> cache;
static std::vector<std::vector<form>> adjf;
static bool edge(int i, int j) {
  if (cache[i][j] < 0) cache[i][j] = sx::decide(adjf[i][j]) ? 1 : 0;
  return cache[i][j];
}
struct tg {};
struct tg_edge {
  int s, d;
};
struct tg_out_it : public boost::iterator_facade<tg_out_it, tg_edge, boost::forward_traversal_tag, tg_edge> {
  int s, k; // k indexes ORDER
  tg_out_it() : s(0), k(NVX) {}
  tg_out_it(int s_, int k_) : s(s_), k(k_) { skip(); }
  void skip() {
    while (k < NVX && !edge(s, ORDER[k])) ++k;
  }
  void increment() {
    ++k;
    skip();
  }
  bool equal(const tg_out_it &o) const { return k == o.k; }
  tg_edge dereference() const { return tg_edge{s, ORDER[k]}; }
};
namespace boost {
template <> struct graph_traits<tg> {
  typedef int vertex_descriptor;
  typedef tg_edge edge_descriptor;
  typedef tg_out_it out_edge_iterator;
  typedef directed_tag directed_category;
  typedef allow_parallel_edge_tag edge_parallel_category;
  typedef incidence_graph_tag traversal_category;
  typedef unsigned degree_size_type;
};
} // namespace boost
inline std::pair<tg_out_it, tg_out_it> out_edges(int v, tg) { return {tg_out_it(v, 0), tg_out_it(v, NVX)}; }
inline int target(tg_edge e, tg) { return e.d; }
inline int entry(tg) { return ENTRY; }
#include <crab/fixpoint/wto.hpp>

// flatten the ordering: position, multiplicity, head flag and the stack of enclosing heads
struct collect : public ikos::wto_component_visitor<tg> {
  std::vector<int> pos, cnt, ishead;
  std::vector<std::vector<int>> encl; // enclosing heads, outermost first (strict: not the node itself)
  std::vector<int> stack;
  std::vector<int> close; // for heads: position of the last element of their component
  int n = 0;
  collect() : pos(NVX, -1), cnt(NVX, 0), ishead(NVX, 0), encl(NVX), close(NVX, -1) {}
  void visit(ikos::wto_vertex<tg> &v) override {
    int x = v.node();
    pos[x] = n++;
    cnt[x]++;
    encl[x] = stack;
  }
  void visit(ikos::wto_cycle<tg> &c) override {
    int h = c.head();
    pos[h] = n++;
    cnt[h]++;
    ishead[h] = 1;
    encl[h] = stack;
    stack.push_back(h);
    for (auto it = c.begin(); it != c.end(); ++it) it->accept(this);
    stack.pop_back();
    close[h] = n - 1;
  }
};

static void harness() {
  cache.assign(NVX, std::vector<int>(NVX, -1));
  adjf.assign(NVX, std::vector<form>(NVX, form(false)));
  for (int i = 0; i < NVX; i++)
    for (int j = 0; j < NVX; j++) adjf[i][j] = sx::fresh_bool("e");
  tg g;
  ikos::wto<tg> w(g);
  collect col;
  w.accept(&col);
  // reference reachability from the entry as formulas over all adjacency bits
  std::vector<form> reach(NVX, form(false));
  reach[ENTRY] = form(true);
  for (int r = 0; r < NVX; r++) {
    std::vector<form> nr = reach;
    for (int j = 0; j < NVX; j++)
      for (int i = 0; i < NVX; i++) nr[j] = nr[j] || (reach[i] && adjf[i][j]);
    reach = nr;
  }
  for (int i = 0; i < NVX; i++) {
    sx::check(sx::iff(reach[i], form(sx::B(col.cnt[i] == 1))), "each node reachable from the entry occurs exactly once");
    sx::check(form(sx::B(col.cnt[i] <= 1)), "no node occurs twice");
  }
  // for every edge u->v (u reachable): u precedes v, or v is the head of a component containing u
  for (int u = 0; u < NVX; u++)
    for (int v = 0; v < NVX; v++) {
      bool fwd = col.pos[u] >= 0 && col.pos[v] >= 0 && col.pos[u] < col.pos[v];
      bool back = false;
      if (col.pos[u] >= 0 && col.pos[v] >= 0 && col.ishead[v]) {
        back = (u == v);
        for (int h : col.encl[u]) back = back || (h == v);
      }
      sx::check(sx::implies(reach[u] && adjf[u][v], form(sx::B(fwd || back))), "edge condition");
    }
  // nesting(n) lists exactly the heads of the strictly enclosing components, outermost first
  for (int x = 0; x < NVX; x++) {
    auto nx = w.nesting(x);
    if (col.cnt[x] == 0) {
      sx::check(form(sx::B(!nx)), "no nesting for nodes outside the ordering");
      continue;
    }
    sx::check(form(sx::B((bool)nx)), "nesting defined for every node of the ordering");
    if (!nx) continue;
    std::vector<int> got;
    for (auto h : *nx) got.push_back(h);
    bool same = got == col.encl[x];
    bool self = false;
    for (int h : got) self = self || h == x;
    sx::check(form(sx::B(same)), "nesting = enclosing heads, outermost first");
    sx::check(form(sx::B(!self)), "a head is not part of its own nesting");
  }
  // components are properly nested: a component's elements form a contiguous segment
  for (int h = 0; h < NVX; h++)
    if (col.ishead[h])
      for (int x = 0; x < NVX; x++)
        if (col.pos[x] >= 0) {
          bool inside = col.pos[x] > col.pos[h] && col.pos[x] <= col.close[h];
          bool listed = false;
          for (int e : col.encl[x]) listed = listed || e == h;
          sx::check(form(sx::B(inside == listed)), "components are properly nested");
        }
}

int main(int argc, char **argv) {
  sx::parse_args(argc, argv);
  NVX = (int)sx::opts().geti("nv", 3);
  ENTRY = (int)sx::opts().geti("entry", 0);
  std::string ord = sx::opts().get("order", "");
  ORDER.clear();
  for (char c : ord) ORDER.push_back(c - '0');
  if ((int)ORDER.size() != NVX) {
    ORDER.clear();
    for (int i = 0; i < NVX; i++) ORDER.push_back(i);
  }
  return sx::run(argc, argv, harness);
}
