// exact.cpp — C12: intervals, zones (and octagons) are exact on their own constraint language.
// The real domain (DOM) is driven by a sequence of in-language operations with symbolic constants:
//   c.i.j  : add  x_i - x_j <= k      (j = 0 is the constant 0: x_i <= k ; i = 0: -x_j <= k)
//   o.s.i.t.j : add  s*x_i + t*x_j <= k   (octagonal, s,t in {+,-}; octagon domains only)
//   fgt.i  : forget x_i        cpy / swp : as in dom.cpp        join / meet : A := A op B
// Reference: a difference-bound matrix over sx terms (octagons: 2n nodes with tight closure:
// shortest paths, tightening, strong coherence), every entry = (finite?, term).  After the
// sequence z3 decides, for all values of the constants:
//   is_bottom  <=>  the reference is unsatisfiable (negative cycle)
//   at(v) bounds == reference bounds;  entails(x_i - x_j <= q) <=> reference entry <= q  (fresh q)
#include "../domsel.hpp"
using namespace hx;
using namespace ds;
using sx::form;
using sx::term;

static int NV = 2;
static bool OCT = false;
static long CR = 0;

struct ent { // entry of the reference matrix
  bool fin;
  term v;
  ent() : fin(false), v(0) {}
  ent(const term &t) : fin(true), v(t) {}
};
static ent emin(const ent &a, const ent &b) {
  if (!a.fin) return b;
  if (!b.fin) return a;
  return ent(sx::ite(a.v <= b.v, a.v, b.v));
}
static ent emax(const ent &a, const ent &b) {
  if (!a.fin || !b.fin) return ent();
  return ent(sx::ite(a.v >= b.v, a.v, b.v));
}
static ent eadd(const ent &a, const ent &b) {
  if (!a.fin || !b.fin) return ent();
  return ent(a.v + b.v);
}
// reference value: N nodes; m[i][j] = upper bound of (node_j - node_i); bot = unsatisfiable
struct refval {
  int N;
  std::vector<std::vector<ent>> m;
  form bot;
  refval(int n) : N(n), m(n, std::vector<ent>(n)), bot(false) {
    for (int i = 0; i < n; i++) m[i][i] = ent(term(0));
  }
  int bar(int i) const { return i ^ 1; }
  void close() {
    for (int k = 0; k < N; k++)
      for (int i = 0; i < N; i++)
        for (int j = 0; j < N; j++) m[i][j] = emin(m[i][j], eadd(m[i][k], m[k][j]));
    if (OCT) { // integer tightening and strong coherence (tight closure of Bagnara, Hill, Zaffanella)
      for (int i = 0; i < N; i++)
        if (m[i][bar(i)].fin) m[i][bar(i)] = ent(term(2) * sx::fdiv(m[i][bar(i)].v, term(2)));
      for (int i = 0; i < N; i++)
        for (int j = 0; j < N; j++) {
          ent h = eadd(m[i][bar(i)], m[bar(j)][j]);
          if (h.fin) m[i][j] = emin(m[i][j], ent(sx::fdiv(h.v, term(2))));
        }
      for (int i = 0; i < N; i++) {
        ent c = eadd(m[i][bar(i)], m[bar(i)][i]);
        if (c.fin) bot = bot || (c.v < term(0));
      }
    }
    for (int i = 0; i < N; i++)
      if (m[i][i].fin) bot = bot || (m[i][i].v < term(0));
    for (int i = 0; i < N; i++) m[i][i] = emin(m[i][i], ent(term(0)));
  }
  void add(int from, int to, const term &k) { // node_to - node_from <= k
    m[from][to] = emin(m[from][to], ent(k));
  }
};
// node numbering.  zones: node 0 = the constant 0, node i = x_i.   octagons: +x_i = 2(i-1), -x_i = 2(i-1)+1
static int NN() { return OCT ? 2 * NV : NV + 1; }
static void ref_add_diff(refval &R, int i, int j, const term &k) { // x_i - x_j <= k  (0 = constant zero)
  if (!OCT) {
    R.add(j, i, k);
    return;
  }
  if (i > 0 && j > 0) { // (+xi) - (+xj) <= k  and the coherent twin
    R.add(2 * (j - 1), 2 * (i - 1), k);
    R.add(2 * (i - 1) + 1, 2 * (j - 1) + 1, k);
  } else if (j == 0) // x_i <= k :  (+xi) - (-xi) <= 2k
    R.add(2 * (i - 1) + 1, 2 * (i - 1), term(2) * k);
  else // -x_j <= k : (-xj) - (+xj) <= 2k
    R.add(2 * (j - 1), 2 * (j - 1) + 1, term(2) * k);
}
static void ref_add_oct(refval &R, int si, int i, int sj, int j, const term &k) { // si*x_i + sj*x_j <= k, i != j
  int a = 2 * (i - 1) + (si > 0 ? 0 : 1); // node of  si*x_i
  int b = 2 * (j - 1) + (sj > 0 ? 1 : 0); // node of -sj*x_j
  R.add(b, a, k);                          // (si x_i) - (-sj x_j) <= k
  R.add(a ^ 1, b ^ 1, k);                  // coherent twin
}
static ent ref_ub(const refval &R, int i) { // upper bound of x_i
  if (!OCT) return R.m[0][i];
  const ent &e = R.m[2 * (i - 1) + 1][2 * (i - 1)];
  return e.fin ? ent(sx::fdiv(e.v, term(2))) : ent();
}
static ent ref_lb(const refval &R, int i) { // lower bound of x_i (as a value)
  if (!OCT) {
    const ent &e = R.m[i][0];
    return e.fin ? ent(-e.v) : ent();
  }
  const ent &e = R.m[2 * (i - 1)][2 * (i - 1) + 1];
  return e.fin ? ent(-sx::fdiv(e.v, term(2))) : ent();
}
static ent ref_diff(const refval &R, int i, int j) { // upper bound of x_i - x_j (i,j >= 1, i != j)
  if (!OCT) return R.m[j][i];
  return R.m[2 * (j - 1)][2 * (i - 1)];
}
static refval ref_forget(const refval &R0, int i) {
  refval R = R0;
  std::vector<int> nodes;
  if (OCT) { nodes.push_back(2 * (i - 1)); nodes.push_back(2 * (i - 1) + 1); } else nodes.push_back(i);
  for (int n : nodes)
    for (int k = 0; k < R.N; k++) {
      if (k != n) { R.m[n][k] = ent(); R.m[k][n] = ent(); }
    }
  if (OCT) { R.m[nodes[0]][nodes[1]] = ent(); R.m[nodes[1]][nodes[0]] = ent(); }
  return R;
}

static std::vector<std::string> seq;
static term cst(std::vector<term> &rec, const char *tag) {
  term t = fresh(tag);
  if (CR > 0) sx::assume(t >= term(-CR) && t <= term(CR));
  rec.push_back(t);
  return t;
}

static void compare(const dom_t &D, refval R, const std::vector<var_t> &V, const char *who) {
  std::string w(who);
  R.close();
  bool db = B(D.is_bottom());
  bool relaxed = OCT && sx::known("F21-oct-meet-not-exact");
  if (relaxed) check(sx::implies(form(db), R.bot), (w + ": is_bottom only when the constraints are unsatisfiable").c_str());
  else check(sx::iff(form(db), R.bot), (w + ": is_bottom exactly when the constraints are unsatisfiable").c_str());
  if (db) return;
  // from here on the reference is satisfiable on this path (if the check above held)
  for (int i = 1; i <= NV; i++) {
    itv_t x = D.at(V[i]);
    boost::optional<znum> l = x.lb().number(), u = x.ub().number();
    ent rl = ref_lb(R, i), ru = ref_ub(R, i);
    if (!relaxed) {
      check(sx::implies(!R.bot, form(B((bool)u) == ru.fin)), (w + ": upper bound finite exactly when implied").c_str());
      check(sx::implies(!R.bot, form(B((bool)l) == rl.fin)), (w + ": lower bound finite exactly when implied").c_str());
    }
    if (relaxed) { // known finding F21: only the sound direction is required after an octagon meet
      if (u && ru.fin) check(sx::implies(!R.bot, term(*u) >= ru.v), (w + ": upper bound is sound").c_str());
      if (l && rl.fin) check(sx::implies(!R.bot, term(*l) <= rl.v), (w + ": lower bound is sound").c_str());
      continue;
    }
    if (u && ru.fin) check(sx::implies(!R.bot, term(*u) == ru.v), (w + ": upper bound is the tightest").c_str());
    if (l && rl.fin) check(sx::implies(!R.bot, term(*l) == rl.v), (w + ": lower bound is the tightest").c_str());
  }
  // entailment of difference constraints with a fresh symbolic constant
  for (int i = 1; i <= NV; i++)
    for (int j = 1; j <= NV; j++) {
      if (i == j) continue;
      term q = fresh("q");
      if (CR > 0) sx::assume(q >= term(-3 * CR) && q <= term(3 * CR));
      bool e = B(D.entails(lcst_t(lexp_t(V[i]) - lexp_t(V[j]) - lexp_t(q.num()), lcst_t::INEQUALITY)));
      ent r = ref_diff(R, i, j);
#if DOM == 1
      // intervals: only what the bounds imply is in the language (after a join the reference DBM also keeps
      // differences that both operands imply, which no interval value can express)
      {
        ent ui = ref_ub(R, i), lj = ref_lb(R, j);
        r.fin = ui.fin && lj.fin;
        if (r.fin) r.v = ui.v - lj.v;
      }
#endif
      form refent = r.fin ? (r.v <= q) : form(false);
      if (relaxed) check(sx::implies(!R.bot, sx::implies(form(e), refent)), (w + ": entails(x_i - x_j <= q) only when implied").c_str());
      else check(sx::implies(!R.bot, sx::iff(form(e), refent)), (w + ": entails(x_i - x_j <= q) exactly when implied").c_str());
    }
}

static void harness() {
  vfac_t vf;
  std::vector<var_t> V;
  V.push_back(var_t(vf["zero"], crab::INT_TYPE, 32)); // unused slot 0
  for (int i = 1; i <= NV; i++) V.push_back(var_t(vf["x" + std::to_string(i)], crab::INT_TYPE, 32));
  std::vector<term> rec;
  dom_t A = make_top(), Bd = make_top();
  refval RA(NN()), RB(NN());
  for (auto &opstr : seq) {
    std::vector<std::string> a = hx::split_csv(opstr, '.');
    auto I = [&](size_t i) { return atoi(a.at(i).c_str()); };
    if (a[0] == "c") {
      int i = I(1), j = I(2);
      term k = cst(rec, "k");
      lexp_t e = (i > 0 ? lexp_t(V[i]) : lexp_t(znum(0))) - (j > 0 ? lexp_t(V[j]) : lexp_t(znum(0))) - lexp_t(k.num());
      A += lcsts_t(lcst_t(e, lcst_t::INEQUALITY));
      ref_add_diff(RA, i, j, k);
    } else if (a[0] == "o") { // o.s.i.t.j with s,t in {p,m}
      int si = a[1] == "p" ? 1 : -1, i = I(2), sj = a[3] == "p" ? 1 : -1, j = I(4);
      term k = cst(rec, "k");
      lexp_t e = lexp_t(znum(si), V[i]) + lexp_t(znum(sj), V[j]) - lexp_t(k.num());
      A += lcsts_t(lcst_t(e, lcst_t::INEQUALITY));
      ref_add_oct(RA, si, i, sj, j, k);
    } else if (a[0] == "fgt") {
      RA.close(); // forget is exact: project the closed reference
      form b = RA.bot;
      RA = ref_forget(RA, I(1));
      RA.bot = b;
      A -= V[I(1)];
    } else if (a[0] == "cpy") {
      Bd = A;
      RB = RA;
    } else if (a[0] == "swp") {
      std::swap(A, Bd);
      std::swap(RA, RB);
    } else if (a[0] == "join") {
      RA.close();
      RB.close();
      sx::assume(!RA.bot && !RB.bot); // joins with an empty operand are trivial; both operands satisfiable here
      refval R(NN());
      for (int i = 0; i < R.N; i++)
        for (int j = 0; j < R.N; j++) R.m[i][j] = emax(RA.m[i][j], RB.m[i][j]); // least zone/octagon above both
      A = A | Bd;
      RA = R;
    } else if (a[0] == "meet") {
      refval R(NN());
      for (int i = 0; i < R.N; i++)
        for (int j = 0; j < R.N; j++) R.m[i][j] = emin(RA.m[i][j], RB.m[i][j]);
      R.bot = RA.bot || RB.bot;
      A = A & Bd;
      RA = R;
    } else
      throw sxe::no_verdict{"unknown-op"};
  }
  compare(A, RA, V, "A");
}

int main(int argc, char **argv) {
  sx::parse_args(argc, argv);
  NV = (int)sx::opts().geti("nv", 2);
  CR = sx::opts().geti("cr", 0);
  OCT = sx::opts().geti("oct", 0) != 0;
  seq = hx::split_csv(sx::opts().get("seq", "c.1.2"));
  return sx::run(argc, argv, harness);
}
