// c06.cpp — the fixpoint engine computes the least solution when nothing is extrapolated.
// Real code: ikos::interleaved_fwd_fixpoint_iterator<G, D> + ikos::wto<G> (+ wto_iterator::visit,
// extrapolate, refine, strengthen), driven through a client subclass as C06 states.
// D = subsets of a 3-element concrete state space, each membership bit a solver formula
// (join/meet bitwise, widening = join, narrowing = meet, <= forks under solver control);
// the transformer of every block is an arbitrary relation (3x3 symbolic bits), the initial
// value and the assumption map are symbolic.  Oracle: Kleene iteration of the flow equations
// written as formulas (no forking).  Shapes: explicit adjacency (shape=) or fully symbolic
// adjacency bits for nv <= 3 (shape=sym).
#include "../sx.hpp"
#include <boost/graph/graph_traits.hpp>
#include <boost/iterator/indirect_iterator.hpp>
#include <boost/iterator/iterator_facade.hpp>
#include <crab/cfg/cfg.hpp>
#include <crab/types/varname_factory.hpp>
#include <vector>
using sx::form;
namespace crab {
template <> class variable_name_traits<std::string> {
public:
  static std::string to_string(std::string v) { return v; }
};
} // namespace crab

static int NVX = 4;
static const int KS = 3; // concrete states
static std::vector<std::vector<int>> ADJ; // -1 = symbolic bit
static std::vector<std::vector<int>> adj_cache;
static std::vector<std::vector<form>> adj_form;
static bool edge(int i, int j) {
  if (ADJ[i][j] >= 0) return ADJ[i][j];
  if (adj_cache[i][j] < 0) adj_cache[i][j] = sx::decide(adj_form[i][j]) ? 1 : 0;
  return adj_cache[i][j];
}
static form edge_f(int i, int j) { return ADJ[i][j] >= 0 ? form(ADJ[i][j] != 0) : adj_form[i][j]; }

typedef crab::var_factory_impl::str_variable_factory::varname_t vname_t;
static std::vector<int> LABELS;
struct tbb {
  using stmt_t = crab::cfg::statement<int, ikos::z_number, vname_t>;
  std::vector<stmt_t *> stmts;
  using const_iterator = boost::indirect_iterator<std::vector<stmt_t *>::const_iterator>;
  const_iterator begin() const { return boost::make_indirect_iterator(stmts.begin()); }
  const_iterator end() const { return boost::make_indirect_iterator(stmts.end()); }
  size_t size() const { return 0; }
  std::vector<int> preds; // only read by the threshold collector (max_thresholds = 0 here)
  std::pair<std::vector<int>::const_iterator, std::vector<int>::const_iterator> prev_blocks() const { return {preds.begin(), preds.end()}; }
};
struct tfdecl {
  std::string get_func_name() const { return ""; }
};
struct tcfg {
  using basic_block_t = tbb;
  using basic_block_label_t = int;
  using number_t = ikos::z_number;
  using varname_t = vname_t;
  using variable_t = crab::variable<ikos::z_number, vname_t>;
  tbb *blocks;
  int entry() const { return 0; }
  std::vector<int> prev_nodes(int n) const {
    std::vector<int> r;
    for (int i = 0; i < NVX; i++)
      if (edge(i, n)) r.push_back(i);
    return r;
  }
  const int *label_begin() const { return LABELS.data(); }
  const int *label_end() const { return LABELS.data() + NVX; }
  tbb &get_node(int n) const { return blocks[n]; }
  bool has_func_decl() const { return false; }
  tfdecl get_func_decl() const { return tfdecl(); }
};
namespace crab {
template <> class basic_block_traits<tbb> {
public:
  static std::string to_string(const int &) { return ""; }
};
} // namespace crab
struct tedge {
  int s, d;
};
struct tout_it : public boost::iterator_facade<tout_it, tedge, boost::forward_traversal_tag, tedge> {
  int s, d;
  tout_it() : s(0), d(NVX) {}
  tout_it(int s_, int d_) : s(s_), d(d_) { skip(); }
  void skip() {
    while (d < NVX && !edge(s, d)) ++d;
  }
  void increment() {
    ++d;
    skip();
  }
  bool equal(const tout_it &o) const { return d == o.d; }
  tedge dereference() const { return tedge{s, d}; }
};
namespace boost {
template <> struct graph_traits<tcfg> {
  typedef int vertex_descriptor;
  typedef tedge edge_descriptor;
  typedef tout_it out_edge_iterator;
  typedef directed_tag directed_category;
  typedef allow_parallel_edge_tag edge_parallel_category;
  typedef incidence_graph_tag traversal_category;
  typedef unsigned degree_size_type;
};
} // namespace boost
inline std::pair<tout_it, tout_it> out_edges(int v, tcfg) { return {tout_it(v, 0), tout_it(v, NVX)}; }
inline int target(tedge e, tcfg) { return e.d; }
inline int entry(tcfg) { return 0; }
#include <crab/fixpoint/interleaved_fixpoint_iterator.hpp>

struct D { // a set of concrete states
  std::vector<form> m;
  D() : m(KS, form(true)) {}
  explicit D(const std::vector<form> &x) : m(x) {}
  D make_top() const { return D(std::vector<form>(KS, form(true))); }
  D make_bottom() const { return D(std::vector<form>(KS, form(false))); }
  D operator|(const D &o) const {
    D r(m);
    for (int i = 0; i < KS; i++) r.m[i] = m[i] || o.m[i];
    return r;
  }
  void operator|=(const D &o) {
    for (int i = 0; i < KS; i++) m[i] = m[i] || o.m[i];
  }
  D operator&(const D &o) const {
    D r(m);
    for (int i = 0; i < KS; i++) r.m[i] = m[i] && o.m[i];
    return r;
  }
  D operator||(const D &o) const { return *this | o; }
  D operator&&(const D &o) const { return *this & o; }
  template <class T> D widening_thresholds(const D &o, const T &) const { return *this | o; }
  bool operator<=(const D &o) const {
    form f(true);
    for (int i = 0; i < KS; i++) f = f && sx::implies(m[i], o.m[i]);
    return sx::decide(f);
  }
};
inline crab::crab_os &operator<<(crab::crab_os &o, const D &) { return o; }

static std::vector<std::vector<std::vector<form>>> REL; // REL[b][s][t]: state s of pre yields state t of post
static D image(int b, const D &pre) {
  D r = pre.make_bottom();
  for (int t = 0; t < KS; t++)
    for (int s = 0; s < KS; s++) r.m[t] = r.m[t] || (pre.m[s] && REL[b][s][t]);
  return r;
}
struct it_t : public ikos::interleaved_fwd_fixpoint_iterator<tcfg, D> {
  it_t(tcfg c, const crab::fixpoint_parameters &p) : ikos::interleaved_fwd_fixpoint_iterator<tcfg, D>(c, D(), p, false) {}
  D analyze(const int &b, D &&pre) override { return image(b, pre); }
  void process_pre(const int &, D) override {}
  void process_post(const int &, D) override {}
};

static unsigned g_wd, g_di;
static int g_start, g_assume;

static void harness() {
  adj_cache.assign(NVX, std::vector<int>(NVX, -1));
  adj_form.assign(NVX, std::vector<form>(NVX, form(false)));
  for (int i = 0; i < NVX; i++)
    for (int j = 0; j < NVX; j++)
      if (ADJ[i][j] < 0) adj_form[i][j] = sx::fresh_bool("e");
  std::vector<tbb> blocks(NVX);
  LABELS.clear();
  for (int i = 0; i < NVX; i++) LABELS.push_back(i);
  REL.assign(NVX, std::vector<std::vector<form>>(KS, std::vector<form>(KS, form(false))));
  for (int b = 0; b < NVX; b++)
    for (int s = 0; s < KS; s++)
      for (int t = 0; t < KS; t++) REL[b][s][t] = sx::fresh_bool("r");
  D init;
  for (int s = 0; s < KS; s++) init.m[s] = sx::fresh_bool("init");
  std::vector<D> assum(NVX);
  typename it_t::assumption_map_t amap;
  if (g_assume)
    for (int b = 0; b < NVX; b++) {
      for (int s = 0; s < KS; s++) assum[b].m[s] = sx::fresh_bool("as");
      if ((g_assume >> b) & 1) amap.insert({b, assum[b]});
    }
  crab::fixpoint_parameters p;
  p.get_widening_delay() = g_wd;
  p.get_descending_iterations() = g_di;
  p.get_max_thresholds() = 0;
  tcfg c{blocks.data()};
  it_t it(c, p);
  // admissible start blocks: the cfg entry, or a block that does not lie inside a loop
  if (g_start != 0) {
    auto nest = it.get_wto().nesting(g_start);
    bool ok = nest && nest->begin() == nest->end();
    // a head of a cycle lies inside that cycle
    struct headv : public ikos::wto_component_visitor<tcfg> {
      int n;
      bool is_head = false;
      headv(int n_) : n(n_) {}
      void visit(ikos::wto_vertex<tcfg> &) override {}
      void visit(ikos::wto_cycle<tcfg> &cy) override {
        if (cy.head() == n) is_head = true;
        for (auto i = cy.begin(); i != cy.end(); ++i) i->accept(this);
      }
    } hv(g_start);
    it.get_wto().accept(&hv);
    if (!ok || hv.is_head) throw sxe::abort_path{"start-block-inside-a-loop-or-unreachable"};
  }
  if (g_start == 0 && !g_assume) it.run(init);
  else it.run(g_start, init, amap);
  // Kleene iteration of the flow equations (reference)
  std::vector<D> pre(NVX, init.make_bottom()), post(NVX, init.make_bottom());
  for (int round = 0; round < KS * NVX + 1; round++)
    for (int b = 0; b < NVX; b++) {
      D in = (b == g_start) ? init : init.make_bottom();
      for (int q = 0; q < NVX; q++)
        for (int s = 0; s < KS; s++) in.m[s] = in.m[s] || (edge_f(q, b) && post[q].m[s]);
      if (g_assume && ((g_assume >> b) & 1)) in = in & assum[b];
      pre[b] |= in;
      post[b] = image(b, pre[b]);
    }
  for (int b = 0; b < NVX; b++) {
    D ip = it.get_pre(b), iq = it.get_post(b);
    form fp(true), fq(true), sp(true), sq(true);
    for (int s = 0; s < KS; s++) {
      fp = fp && sx::iff(ip.m[s], pre[b].m[s]);
      fq = fq && sx::iff(iq.m[s], post[b].m[s]);
      sp = sp && sx::implies(pre[b].m[s], ip.m[s]);
      sq = sq && sx::implies(post[b].m[s], iq.m[s]);
    }
    sx::check(sp, "pre contains the least solution (soundness)");
    sx::check(sq, "post contains the least solution (soundness)");
    sx::check(fp, "pre = least solution");
    sx::check(fq, "post = least solution");
  }
}

int main(int argc, char **argv) {
  sx::parse_args(argc, argv);
  std::string shape = sx::opts().get("shape", "0100,0011,0100,0000");
  if (shape == "sym") {
    NVX = (int)sx::opts().geti("nv", 3);
    ADJ.assign(NVX, std::vector<int>(NVX, -1));
  } else {
    std::vector<std::string> rows;
    std::string cur;
    for (char ch : shape) {
      if (ch == ',') { rows.push_back(cur); cur.clear(); } else cur += ch;
    }
    rows.push_back(cur);
    NVX = (int)rows.size();
    ADJ.assign(NVX, std::vector<int>(NVX, 0));
    for (int i = 0; i < NVX; i++)
      for (int j = 0; j < NVX; j++) ADJ[i][j] = rows[i][j] == '?' ? -1 : rows[i][j] - '0';
  }
  g_wd = sx::opts().geti("wd", 1);
  g_di = sx::opts().geti("di", 1);
  g_start = (int)sx::opts().geti("start", 0);
  g_assume = (int)sx::opts().geti("assume", 0);
  return sx::run(argc, argv, harness);
}
