// C08 — interval<z_number>: soundness of every operation and tightness of + - neg * | &.
// Real code: include/crab/domains/interval_impl.hpp (templates) and lib/interval.cpp
// (z_number specialisations), compiled unmodified.  Operands: symbolic shape (bottom, top,
// finite, half lines) and symbolic bounds (unbounded unless range= is given).
#include "../hx.hpp"
using namespace hx;

static std::string op;
static long range, krange;

static form conc_defined(const term &x, const term &y) {
  if (op == "div" || op == "srem") return y != term(0);
  if (op == "udiv" || op == "urem") return x >= term(0) && y > term(0); // unsigned ops on non-negative values
  if (op == "shl" || op == "ashr") return y >= term(0) && y <= term(krange);
  if (op == "lshr") return x >= term(0) && y >= term(0) && y <= term(krange);
  return form(true);
}
static term pow2(const term &k) { // k in [0, krange]
  term r(1);
  for (long i = krange; i >= 1; i--) r = ite(k >= term(i), r * term(2), r);
  return r;
}
static term conc(const term &x, const term &y) {
  if (op == "add") return x + y;
  if (op == "sub") return x - y;
  if (op == "mul") return x * y;
  if (op == "div" || op == "udiv") return tdiv(x, y);
  if (op == "srem" || op == "urem") return trem(x, y);
  if (op == "and") return bitop(0, x, y, 12);
  if (op == "or") return bitop(1, x, y, 12);
  if (op == "xor") return bitop(2, x, y, 12);
  if (op == "shl") return x * pow2(y);
  if (op == "ashr" || op == "lshr") return fdiv(x, pow2(y));
  throw sxe::no_verdict{"unknown-op"};
}
static itv_t absop(const itv_t &a, const itv_t &b) {
  if (op == "add") return a + b;
  if (op == "sub") return a - b;
  if (op == "mul") return a * b;
  if (op == "div") return a / b;
  if (op == "udiv") return a.UDiv(b);
  if (op == "srem") return a.SRem(b);
  if (op == "urem") return a.URem(b);
  if (op == "and") return a.And(b);
  if (op == "or") return a.Or(b);
  if (op == "xor") return a.Xor(b);
  if (op == "shl") return a.Shl(b);
  if (op == "ashr") return a.AShr(b);
  if (op == "lshr") return a.LShr(b);
  throw sxe::no_verdict{"unknown-op"};
}

// is the extended product (bound pa of a) * (bound pb of b) equal to -oo (neg=true) / +oo (neg=false)?
static form ext_inf(const sitv &a, bool a_upper, const sitv &b, bool b_upper, bool neg) {
  bool afin = a_upper ? has_ub(a) : has_lb(a), bfin = b_upper ? has_ub(b) : has_lb(b);
  term av = a_upper ? a.u : a.l, bv = b_upper ? b.u : b.l;
  // sign of an infinite bound: lower = -oo, upper = +oo
  if (afin && bfin) return form(false);
  if (!afin && !bfin) { bool sneg = (a_upper != b_upper); return form(sneg == neg); }
  if (!afin) { bool aneg = !a_upper; return neg ? (aneg ? bv > term(0) : bv < term(0)) : (aneg ? bv < term(0) : bv > term(0)); }
  bool bneg = !b_upper;
  return neg ? (bneg ? av > term(0) : av < term(0)) : (bneg ? av < term(0) : av > term(0));
}
static void h_binary() {
  bool bitw = (op == "and" || op == "or" || op == "xor");
  sitv a = fresh_itv("a", true, range), b = fresh_itv("b", true, range);
  itv_t r = absop(a.v, b.v);
  term x = fresh_member(a, "x"), y = fresh_member(b, "y");
  if (bitw) assume(x >= term(-2047) && x <= term(2047) && y >= term(-2047) && y <= term(2047));
  assume(conc_defined(x, y));
  if (known("F1-idiv-negative-dividend")) // class of the known finding, excluded so that others still show
    assume(!(form(op == "div") && x < term(0)));
  if (known("F2-ashr-negative")) assume(!(form(op == "ashr") && x < term(0)));
  check(mem(r, conc(x, y)), "sound");
  // tightness (smallest interval) for + and -: bounds attained
  if (op == "add" || op == "sub") {
    bool lbfin = op == "add" ? (has_lb(a) && has_lb(b)) : (has_lb(a) && has_ub(b));
    bool ubfin = op == "add" ? (has_ub(a) && has_ub(b)) : (has_ub(a) && has_lb(b));
    boost::optional<znum> l = r.lb().number(), u = r.ub().number();
    check(form(B((bool)l) == lbfin), "tight-lb-finite");
    check(form(B((bool)u) == ubfin), "tight-ub-finite");
    if (l && lbfin) check(term(*l) == (op == "add" ? a.l + b.l : a.l - b.u), "tight-lb");
    if (u && ubfin) check(term(*u) == (op == "add" ? a.u + b.u : a.u - b.l), "tight-ub");
  }
  if (op == "mul") {
    // smallest interval: every finite bound of the result is attained by some pair, and a
    // side is infinite only if the products are unbounded on that side.
    boost::optional<znum> l = r.lb().number(), u = r.ub().number();
    bool allfin = a.shape == 2 && b.shape == 2;
    if (allfin) {
      check(form(B((bool)l) && B((bool)u)), "tight-mul-finite");
      if (l && u) {
        term c1 = a.l * b.l, c2 = a.l * b.u, c3 = a.u * b.l, c4 = a.u * b.u;
        term L(*l), U(*u);
        check(L == c1 || L == c2 || L == c3 || L == c4, "tight-mul-lb-attained");
        check(U == c1 || U == c2 || U == c3 || U == c4, "tight-mul-ub-attained");
      }
    } else {
      // with an infinite operand bound: a finite result bound must be attained by a pair of
      // finite corner values or be 0 (0 * anything)
      if (l) {
        term L(*l);
        form att = (L == term(0));
        if (has_lb(a) && has_lb(b)) att = att || (L == a.l * b.l);
        if (has_lb(a) && has_ub(b)) att = att || (L == a.l * b.u);
        if (has_ub(a) && has_lb(b)) att = att || (L == a.u * b.l);
        if (has_ub(a) && has_ub(b)) att = att || (L == a.u * b.u);
        check(att, "tight-mul-lb-attained-inf");
      }
      if (u) {
        term U(*u);
        form att = (U == term(0));
        if (has_lb(a) && has_lb(b)) att = att || (U == a.l * b.l);
        if (has_lb(a) && has_ub(b)) att = att || (U == a.l * b.u);
        if (has_ub(a) && has_lb(b)) att = att || (U == a.u * b.l);
        if (has_ub(a) && has_ub(b)) att = att || (U == a.u * b.u);
        check(att, "tight-mul-ub-attained-inf");
      }
      if (a.shape != 0 && b.shape != 0) {
        form neginf = ext_inf(a, false, b, false, true) || ext_inf(a, false, b, true, true) || ext_inf(a, true, b, false, true) || ext_inf(a, true, b, true, true);
        form posinf = ext_inf(a, false, b, false, false) || ext_inf(a, false, b, true, false) || ext_inf(a, true, b, false, false) || ext_inf(a, true, b, true, false);
        check(iff(form(!B((bool)l)), neginf), "tight-mul-lb-infinite-iff-unbounded");
        check(iff(form(!B((bool)u)), posinf), "tight-mul-ub-infinite-iff-unbounded");
      }
    }
  }
}

static void h_bottom_strict() { // abstract ops on an empty operand: no concrete pair exists; result must not crash
  sitv a = fresh_itv("a", true, range);
  itv_t bot = itv_t::bottom();
  itv_t r1 = absop(a.v, bot), r2 = absop(bot, a.v);
  check(form(true), "ran");
  (void)r1; (void)r2;
}

static void h_neg() {
  sitv a = fresh_itv("a", true, range);
  itv_t r = -a.v;
  term x = fresh_member(a, "x");
  check(mem(r, -x), "sound");
  boost::optional<znum> l = r.lb().number(), u = r.ub().number();
  check(form(B((bool)l) == has_ub(a)) && form(B((bool)u) == has_lb(a)), "tight-finite");
  if (l && has_ub(a)) check(term(*l) == -a.u, "tight-lb");
  if (u && has_lb(a)) check(term(*u) == -a.l, "tight-ub");
}

static void h_lattice() {
  sitv a = fresh_itv("a", true, range), b = fresh_itv("b", true, range);
  term x = fresh("x");
  form ina(a.shape != 0), inb(b.shape != 0);
  if (has_lb(a)) ina = ina && (a.l <= x);
  if (has_ub(a)) ina = ina && (x <= a.u);
  if (has_lb(b)) inb = inb && (b.l <= x);
  if (has_ub(b)) inb = inb && (x <= b.u);
  if (op == "join" || op == "widen") {
    itv_t r = op == "join" ? (a.v | b.v) : (a.v || b.v);
    check(implies(ina || inb, mem(r, x)), "sound");
    if (op == "join") { // least: bounds are min / max of the operands' bounds
      if (a.shape != 0 && b.shape != 0) {
        boost::optional<znum> l = r.lb().number(), u = r.ub().number();
        check(form(B((bool)l) == (has_lb(a) && has_lb(b))), "tight-lb-finite");
        check(form(B((bool)u) == (has_ub(a) && has_ub(b))), "tight-ub-finite");
        if (l && has_lb(a) && has_lb(b)) check(term(*l) == ite(a.l <= b.l, a.l, b.l), "tight-lb");
        if (u && has_ub(a) && has_ub(b)) check(term(*u) == ite(a.u >= b.u, a.u, b.u), "tight-ub");
      } else if (a.shape == 0) {
        check(implies(mem(r, x), inb), "join-with-bottom-exact");
      } else
        check(implies(mem(r, x), ina), "join-with-bottom-exact");
    } else {
      // widening ranking fact: the result either equals the left operand or has strictly
      // more infinite bounds (chains of any length stabilise after at most 2 changes)
      if (a.shape != 0) {
        int infa = (has_lb(a) ? 0 : 1) + (has_ub(a) ? 0 : 1);
        int infr = (B((bool)r.lb().number()) ? 0 : 1) + (B((bool)r.ub().number()) ? 0 : 1);
        bool same = B(r <= a.v);
        check(form(same || infr > infa), "widen-rank");
      }
    }
  } else if (op == "meet" || op == "narrow") {
    itv_t r = op == "meet" ? (a.v & b.v) : (a.v && b.v);
    if (op == "meet") {
      check(implies(ina && inb, mem(r, x)), "sound");
      check(implies(mem(r, x), ina && inb), "tight-exact"); // meet of intervals is exact
    } else {
      // narrowing of a decreasing pair (b <= a) contains its second argument
      form dec = implies(inb, ina);
      // "decreasing" must hold for every x, so state it on the bounds instead
      bool bleqa = B(b.v <= a.v);
      if (bleqa) check(implies(inb, mem(r, x)), "narrow-contains-second");
      (void)dec;
    }
  } else if (op == "leq") {
    bool le = B(a.v <= b.v);
    if (le) check(implies(ina, inb), "leq-yes-sound");
    else {
      // exactness of the order: a "no" answer has a witness; as a validity statement:
      // NOT(for all x: ina => inb).  Decide by cases on the bounds (reference order).
      form ref = form(a.shape == 0);
      if (a.shape != 0 && b.shape != 0) {
        form lo = has_lb(b) ? (has_lb(a) ? (b.l <= a.l) : form(false)) : form(true);
        form hi = has_ub(b) ? (has_ub(a) ? (a.u <= b.u) : form(false)) : form(true);
        ref = lo && hi;
      }
      check(!ref, "leq-no-exact");
    }
    bool eq = B(a.v == b.v);
    bool ge = B(b.v <= a.v);
    check(form(eq == (le && ge)), "eq-iff-both-leq");
  } else if (op == "member") {
    // operator[] and singleton()
    term n = fresh("n");
    bool in = B(a.v[n.num()]);
    form inn(a.shape != 0);
    if (has_lb(a)) inn = inn && (a.l <= n);
    if (has_ub(a)) inn = inn && (n <= a.u);
    check(iff(form(in), inn), "member-exact");
    boost::optional<znum> s = a.v.singleton();
    check(iff(form(B((bool)s)), form(a.shape == 2) && a.l == a.u), "singleton-exact");
    if (s) check(term(*s) == a.l, "singleton-value");
    check(form(B(a.v.is_bottom()) == (a.shape == 0)), "is_bottom");
    check(form(B(a.v.is_top()) == (a.shape == 1)), "is_top");
  } else if (op == "halfline") {
    itv_t lo = a.v.lower_half_line(), up = a.v.upper_half_line();
    term y = fresh("y");
    check(implies(ina && y <= x, mem(lo, y)), "lower-half-line");
    check(implies(ina && y >= x, mem(up, y)), "upper-half-line");
    itv_t lo2 = ikos::linear_interval_solver_impl::lower_half_line(a.v, true);
    itv_t up2 = ikos::linear_interval_solver_impl::upper_half_line(a.v, true);
    check(implies(ina && y <= x, mem(lo2, y)), "lower-half-line-solver");
    check(implies(ina && y >= x, mem(up2, y)), "upper-half-line-solver");
  } else if (op == "trim") {
    // trim_interval(i, j): values of i different from every value of j  (x != y)
    itv_t r = ikos::linear_interval_solver_impl::trim_interval(a.v, b.v);
    // x in a, and for the unique possible y (j singleton) x != y; if j is not a singleton,
    // any x of a may differ from some y of b
    form survives = ina;
    if (b.shape == 2) survives = ina && !(b.l == b.u && x == b.l);
    check(implies(survives && form(b.shape != 0), mem(r, x)), "trim-sound");
    check(implies(mem(r, x), ina), "trim-subset");
  }
}

int main(int argc, char **argv) {
  sx::parse_args(argc, argv);
  op = sx::opts().get("op", "add");
  range = sx::opts().geti("range", 0);
  krange = sx::opts().geti("krange", 6);
  std::function<void()> h;
  if (op == "neg") h = h_neg;
  else if (op == "join" || op == "meet" || op == "widen" || op == "narrow" || op == "leq" || op == "member" ||
           op == "halfline" || op == "trim")
    h = h_lattice;
  else if (op.rfind("bot-", 0) == 0) { op = op.substr(4); h = h_bottom_strict; }
  else h = h_binary;
  return sx::run(argc, argv, h);
}
