// rgn.cpp — C15: the region/reference domain is sound for loads and reference queries.
// Real code: region_domain<Params> (region_domain.hpp, region/ghost_variable_manager.hpp, ghost_variables.hpp,
// region_info.hpp, tags.hpp, small_range, union_find_domain, boolean.hpp) over the base domain selected by -DRB=<n>.
// A concrete memory (per region: a list of (address, value) writes; references = (address, allocation site);
// objects = symbolic pairwise-distant non-null base addresses) is carried along an operation history; z3 decides
// after every load that the loaded value is in at(lhs) (for references: null/non-null answer and allocation
// sites), and after every query that a definite answer is right.  Reads of never-written cells end the path.
#include "../hx.hpp"
#include <crab/types/varname_factory.hpp>
#include <crab/types/variable.hpp>
#include <crab/types/linear_constraints.hpp>
#include <crab/domains/abstract_domain_params.hpp>
#include <crab/domains/intervals.hpp>
#include <crab/domains/split_dbm.hpp>
#include <crab/domains/flat_boolean_domain.hpp>
#include <crab/domains/sign_constant_domain.hpp>
#include <crab/domains/region_domain.hpp>
namespace crab {
template <> class variable_name_traits<std::string> {
public:
  static std::string to_string(std::string varname) { return varname; }
};
} // namespace crab
using namespace hx;
using namespace crab::domains;
using sx::form;
using sx::term;
typedef crab::var_factory_impl::str_variable_factory vfac_t;
typedef vfac_t::varname_t varname_t;
typedef crab::var_factory_impl::str_var_alloc_col var_allocator;
typedef var_allocator::varname_t bvarname_t;
#ifndef RB
#define RB 1
#endif
#if RB == 1
typedef ikos::interval_domain<znum, bvarname_t> base_t;
#elif RB == 2
typedef split_dbm_domain<znum, bvarname_t, DBM_impl::BigNumDefaultParams<znum, DBM_impl::GraphRep::ss>> base_t;
#elif RB == 3
typedef flat_boolean_numerical_domain<ikos::interval_domain<znum, bvarname_t>> base_t;
#elif RB == 4
typedef sign_constant_domain<znum, bvarname_t> base_t;
#endif
struct RParams {
  using number_t = znum;
  using varname_t = ::varname_t;
  using varname_allocator_t = var_allocator;
  using base_abstract_domain_t = base_t;
  using base_varname_t = bvarname_t;
};
typedef region_domain<RParams> dom_t;
typedef crab::variable<znum, varname_t> var_t;
typedef crab::variable_or_constant<znum, varname_t> voc_t;
typedef ikos::linear_expression<znum, varname_t> lexp_t;
typedef ikos::linear_constraint<znum, varname_t> lcst_t;
typedef ikos::linear_constraint_system<znum, varname_t> lcsts_t;
typedef crab::reference_constraint<znum, varname_t> rcst_t;

static const int NREF = 3, NRGN = 3; // regions 0,1: integer cells; region 2: reference cells
static std::vector<std::string> seq;

struct cref {
  term addr, site; // site = index of the allocation site (-1: none, e.g. null)
  cref() : addr(0), site(-1) {}
};
struct cell {
  term addr, val, site; // site only for reference cells
};
struct conc_t {
  cref r[NREF];
  std::vector<cell> mem[NRGN];
  std::vector<term> objs; // base addresses of the objects allocated so far
  term i, x, v;
  conc_t() : i(0), x(0), v(0) {}
};
struct world {
  vfac_t vf;
  crab::tag_manager tm;
  std::vector<crab::tag> sites;
  std::vector<var_t> R, G;
  var_t I, X, Vv, Bc;
  dom_t D, D2;
  conc_t c, c2;
  world() : I(vf["i"], crab::INT_TYPE, 32), X(vf["x"], crab::INT_TYPE, 32), Vv(vf["v"], crab::INT_TYPE, 32), Bc(vf["bc"], crab::BOOL_TYPE, 1) {
    for (int k = 0; k < NREF; k++) R.push_back(var_t(vf["p" + std::to_string(k)], crab::REF_TYPE, 32));
    G.push_back(var_t(vf["R0"], crab::REG_INT_TYPE, 32));
    G.push_back(var_t(vf["R1"], crab::REG_INT_TYPE, 32));
    G.push_back(var_t(vf["RR"], crab::REG_REF_TYPE, 32));
    for (int k = 0; k < 6; k++) sites.push_back(tm.mk_tag());
    c.i = fresh("i0");
    c.x = fresh("x0");
    c.v = fresh("v0");
    c2 = c;
  }
};
// value at address a in region g: the latest matching write; `written` says whether there is one
static void lookup(const std::vector<cell> &m, const term &a, term &val, term &site, form &written) {
  val = term(0);
  site = term(-1);
  written = form(false);
  for (auto &w : m) { // oldest first, later writes override
    form hit = (w.addr == a);
    val = sx::ite(hit, w.val, val);
    site = sx::ite(hit, w.site, site);
    written = written || hit;
  }
}
static void check_ref_queries(world &W, int p, const char *what) {
  if (B(W.D.is_bottom())) {
    check(form(false), (std::string(what) + ": state became bottom").c_str());
    return;
  }
  crab::domains::boolean_value nv = W.D.is_null_ref(W.R[p]);
  if (B(nv.is_true())) check(W.c.r[p].addr == term(0), (std::string(what) + ": is_null_ref says null").c_str());
  if (B(nv.is_false())) check(!(W.c.r[p].addr == term(0)), (std::string(what) + ": is_null_ref says non-null").c_str());
  std::vector<crab::tag> out;
  if (W.D.get_allocation_sites(W.R[p], out)) {
    form in(false);
    for (auto &t : out)
      for (size_t k = 0; k < W.sites.size(); k++)
        if (t == W.sites[k]) in = in || (W.c.r[p].site == term((long)k));
    // a null reference has no allocation site
    check(in || W.c.r[p].addr == term(0), (std::string(what) + ": reported allocation sites contain the actual one").c_str());
  }
}
static void step(world &W, const std::string &opstr) {
  std::vector<std::string> a = hx::split_csv(opstr, '.');
  auto I = [&](size_t i) { return atol(a.at(i).c_str()); };
  const std::string &op = a[0];
  voc_t size8(znum(8), crab::variable_type(crab::INT_TYPE, 32));
  if (op == "init") { // region_init(g)
    W.D.region_init(W.G[I(1)]);
    W.c.mem[I(1)].clear();
  } else if (op == "make") { // p := make_ref(g, 8, site)    make.p.g[.site]
    int p = I(1), g = I(2), s = a.size() > 3 ? I(3) : (int)W.c.objs.size();
    W.D.ref_make(W.R[p], W.G[g], size8, W.sites[s]);
    term base = fresh("obj");
    form ok = base >= term(1);
    for (auto &b : W.c.objs) ok = ok && (base >= b + term(64) || b >= base + term(64));
    sx::assume(ok);
    W.c.objs.push_back(base);
    W.c.r[p].addr = base;
    W.c.r[p].site = term((long)s);
  } else if (op == "idx") { // i := value in [lo,hi]
    long lo = I(1), hi = I(2);
    term j = fresh("j");
    sx::assume(j >= term(lo) && j <= term(hi));
    W.c.i = j;
    W.D -= W.I;
    W.D += lcsts_t(lcst_t(lexp_t(znum(lo)) - lexp_t(W.I), lcst_t::INEQUALITY));
    W.D += lcsts_t(lcst_t(lexp_t(W.I) - lexp_t(znum(hi)), lcst_t::INEQUALITY));
  } else if (op == "gepc" || op == "geps") { // q := gep(p, k | i)     gepc.p.q.g1.g2.k   geps.p.q.g1.g2
    int p = I(1), q = I(2), g1 = I(3), g2 = I(4);
    term off = op == "gepc" ? term(I(5)) : W.c.i;
    W.D.ref_gep(W.R[p], W.G[g1], W.R[q], W.G[g2], op == "gepc" ? lexp_t(znum(I(5))) : lexp_t(W.I));
    cref n;
    n.addr = W.c.r[p].addr + off;
    n.site = W.c.r[p].site;
    W.c.r[q] = n;
  } else if (op == "st" || op == "stv") { // *p := fresh value (constant operand | variable with symbolic bounds)   st.p.g
    int p = I(1), g = I(2);
    sx::assume(!(W.c.r[p].addr == term(0))); // a store through null is not an execution
    term v = fresh("sv");
    if (op == "st") {
      W.D.ref_store(W.R[p], W.G[g], voc_t(v.num(), crab::variable_type(crab::INT_TYPE, 32)));
    } else {
      term l = fresh("l"), u = fresh("u");
      sx::assume(l <= v && v <= u);
      W.c.v = v;
      W.D -= W.Vv;
      W.D += lcsts_t(lcst_t(lexp_t(l.num()) - lexp_t(W.Vv), lcst_t::INEQUALITY));
      W.D += lcsts_t(lcst_t(lexp_t(W.Vv) - lexp_t(u.num()), lcst_t::INEQUALITY));
      W.D.ref_store(W.R[p], W.G[g], voc_t(W.Vv));
    }
    W.c.mem[g].push_back(cell{W.c.r[p].addr, v, term(-1)});
  } else if (op == "ld") { // x := *p     ld.p.g
    int p = I(1), g = I(2);
    sx::assume(!(W.c.r[p].addr == term(0)));
    term val(0), site(0);
    form written(false);
    lookup(W.c.mem[g], W.c.r[p].addr, val, site, written);
    sx::assume(written); // reads of never-written cells are outside the model
    W.D.ref_load(W.R[p], W.G[g], W.X);
    W.c.x = val;
    if (B(W.D.is_bottom()))
      check(form(false), "load: state became bottom");
    else
      check(mem(W.D.at(W.X), val), "load: loaded value in at(lhs)");
  } else if (op == "str") { // *p := q  (reference cell in region 2)    str.p.q
    int p = I(1), q = I(2);
    sx::assume(!(W.c.r[p].addr == term(0)));
    W.D.ref_store(W.R[p], W.G[2], voc_t(W.R[q]));
    W.c.mem[2].push_back(cell{W.c.r[p].addr, W.c.r[q].addr, W.c.r[q].site});
  } else if (op == "ldr") { // q := *p  (reference cell)    ldr.p.q
    int p = I(1), q = I(2);
    sx::assume(!(W.c.r[p].addr == term(0)));
    term val(0), site(0);
    form written(false);
    lookup(W.c.mem[2], W.c.r[p].addr, val, site, written);
    sx::assume(written);
    W.D.ref_load(W.R[p], W.G[2], W.R[q]);
    W.c.r[q].addr = val;
    W.c.r[q].site = site;
    check_ref_queries(W, q, "load of a reference");
  } else if (op == "free") { // free.p.g
    W.D.ref_free(W.G[I(2)], W.R[I(1)]);
  } else if (op == "null") { // p := null
    int p = I(1);
    W.D -= W.R[p];
    W.D.ref_assume(rcst_t::mk_null(W.R[p]));
    W.c.r[p] = cref();
  } else if (op == "asm") { // assume(p == q | p != q | p != null | p == null)    asm.eq.p.q  asm.ne.p.q  asm.nn.p  asm.nl.p
    const std::string &k = a[1];
    int p = I(2);
    if (k == "eq") {
      sx::assume(W.c.r[p].addr == W.c.r[I(3)].addr);
      W.D.ref_assume(rcst_t::mk_eq(W.R[p], W.R[I(3)]));
    } else if (k == "ne") {
      sx::assume(!(W.c.r[p].addr == W.c.r[I(3)].addr));
      W.D.ref_assume(rcst_t::mk_not_eq(W.R[p], W.R[I(3)]));
    } else if (k == "nn") {
      sx::assume(!(W.c.r[p].addr == term(0)));
      W.D.ref_assume(rcst_t::mk_not_null(W.R[p]));
    } else {
      sx::assume(W.c.r[p].addr == term(0));
      W.D.ref_assume(rcst_t::mk_null(W.R[p]));
    }
    if (B(W.D.is_bottom())) check(form(false), "ref_assume: a satisfiable reference constraint made the state bottom");
  } else if (op == "asmo") { // assume(p REL q + k), k constant or symbolic ("s"), optionally negated first    asmo.rel.p.q.k[.neg]
    const std::string &k = a[1];
    int p = I(2), q = I(3);
    term off = a[4] == "s" ? fresh("off") : term(I(4));
    if (a[4] == "s") sx::assume(off >= term(-16) && off <= term(16));
    bool neg = a.size() > 5 && a[5] == "neg";
    rcst_t c = k == "eq" ? rcst_t::mk_eq(W.R[p], W.R[q], off.num()) : k == "ne" ? rcst_t::mk_not_eq(W.R[p], W.R[q], off.num())
             : k == "lt" ? rcst_t::mk_lt(W.R[p], W.R[q], off.num()) : k == "le" ? rcst_t::mk_le(W.R[p], W.R[q], off.num())
             : k == "gt" ? rcst_t::mk_gt(W.R[p], W.R[q], off.num()) : rcst_t::mk_ge(W.R[p], W.R[q], off.num());
    term lhs = W.c.r[p].addr, rhs = W.c.r[q].addr + off;
    form f = k == "eq" ? (lhs == rhs) : k == "ne" ? !(lhs == rhs) : k == "lt" ? (lhs < rhs) : k == "le" ? (lhs <= rhs) : k == "gt" ? (lhs > rhs) : (lhs >= rhs);
    if (neg) {
      c = c.negate();
      f = !f;
    }
    sx::assume(f);
    W.D.ref_assume(c);
    if (B(W.D.is_bottom())) check(form(false), "ref_assume: a satisfiable reference constraint made the state bottom");
  } else if (op == "q") { // queries on p
    check_ref_queries(W, I(1), "query");
  } else if (op == "r2i") { // x := ref_to_int(p)
    int p = I(1);
    W.D.ref_to_int(W.G[I(2)], W.R[p], W.X);
    W.c.x = W.c.r[p].addr;
    if (!B(W.D.is_bottom())) check(mem(W.D.at(W.X), W.c.x), "ref_to_int: address in at(lhs)");
  } else if (op == "i2r") { // p := int_to_ref(i)    i2r.p.g
    int p = I(1);
    W.D.int_to_ref(W.I, W.G[I(2)], W.R[p]);
    W.c.r[p].addr = W.c.i;
    W.c.r[p].site = term(-1);
  } else if (op == "sel" || op == "seln") { // l := cond ? p : q (q = null for seln); the condition is an unconstrained Boolean    sel.l.g.p.gp.q.gq   seln.l.g.p.gp
    int l = I(1), g = I(2), p = I(3), gp = I(4);
    term b = fresh("cond");
    sx::assume(b >= term(0) && b <= term(1));
    W.D -= W.Bc;
    cref nv = W.c.r[p];
    if (op == "sel") {
      int q = I(5), gq = I(6);
      W.D.select_ref(W.R[l], W.G[g], W.Bc, voc_t(W.R[p]), boost::optional<var_t>(W.G[gp]), voc_t(W.R[q]), boost::optional<var_t>(W.G[gq]));
      nv.addr = sx::ite(b == term(1), W.c.r[p].addr, W.c.r[q].addr);
      nv.site = sx::ite(b == term(1), W.c.r[p].site, W.c.r[q].site);
    } else {
      W.D.select_ref(W.R[l], W.G[g], W.Bc, voc_t(W.R[p]), boost::optional<var_t>(W.G[gp]), voc_t::make_reference_null(), boost::none);
      nv.addr = sx::ite(b == term(1), W.c.r[p].addr, term(0));
      nv.site = sx::ite(b == term(1), W.c.r[p].site, term(-1));
    }
    W.c.r[l] = nv;
    check_ref_queries(W, l, "select_ref");
  } else if (op == "rcopy") { // region_copy(lhs, rhs)    rcopy.lhs.rhs
    W.D.region_copy(W.G[I(1)], W.G[I(2)]);
    W.c.mem[I(1)] = W.c.mem[I(2)];
  } else if (op == "cpy") {
    W.D2 = W.D;
    W.c2 = W.c;
  } else if (op == "swp") {
    std::swap(W.D, W.D2);
    std::swap(W.c, W.c2);
  } else if (op == "join" || op == "wid") { // the concrete execution is one of the two
    term p = fresh("pick");
    sx::assume(p >= term(0) && p <= term(1));
    W.D = op == "join" ? (W.D | W.D2) : (W.D || W.D2);
    if (!sx::decide(p == term(1))) W.c = W.c2;
  } else
    throw sxe::no_verdict{"unknown-op"};
  check(form(!B(W.D.is_bottom())), "region operation does not turn a reachable state into bottom");
}
static void harness() {
  auto &P = crab::domains::crab_domain_params_man::get();
  P.set_param("region.allocation_sites", sx::opts().get("allocs", "true"));
  P.set_param("region.deallocation", sx::opts().get("dealloc", "true"));
  P.set_param("region.tag_analysis", sx::opts().get("tags", "true"));
  P.set_param("region.is_dereferenceable", sx::opts().get("deref", "false"));
  P.set_param("region.skip_unknown_regions", sx::opts().get("skipunk", "true"));
  world W;
  for (auto &o : seq) step(W, o);
}
int main(int argc, char **argv) {
  sx::parse_args(argc, argv);
  seq = hx::split_csv(sx::opts().get("seq", "init.0,make.0.0,st.0.0,ld.0.0"));
  return sx::run(argc, argv, harness);
}
