// arr.cpp — C14: array domains never lose a value that a cell can hold.
// Real code: array_smashing<Base>, array_adaptive_domain<Base> (offset_map, cell_t, smash_array,
// kill_cells, get_overlap_cells, ...) and lib/array_adaptive_impl.cpp, over the Base selected by DOM.
// A concrete word-level array (N cells of `esz` bytes, values = solver terms) is carried along an
// operation history; after every load z3 decides: the loaded concrete value is in at(lhs) and the
// state is not bottom.  Histories (seq=): init, storec.k, stores, range.k1.k2, loadc.k, loads,
// asg (b := a), swpab, cpy / swp / join / wid (two abstract states, as in dom.cpp).
#include "../domsel.hpp"
using namespace hx;
using namespace ds;
using sx::form;
using sx::term;

static int N = 3;      // cells
static long ESZ = 4;   // element size in bytes
static std::vector<std::string> seq;

struct conc_t {                 // concrete side
  std::vector<term> a, b;       // contents of arrays a and b
  term i, x, v, w;              // scalars: index variable, loaded value, two value variables
  conc_t() : i(0), x(0), v(0), w(0) {}
};
struct world {
  vfac_t vf;
  var_t A, Bv, I, X, Vv, Ww;
  dom_t D, D2;
  conc_t c, c2;
  bool have_bounds = false; // bounds of the last initv / storev: storew / rangew reuse them (w ranges over the same interval as v)
  term bl, bu;
  world()
      : A(vf["a"], crab::ARR_INT_TYPE, 32), Bv(vf["b"], crab::ARR_INT_TYPE, 32), I(vf["i"], crab::INT_TYPE, 32), X(vf["x"], crab::INT_TYPE, 32),
        Vv(vf["v"], crab::INT_TYPE, 32), Ww(vf["w"], crab::INT_TYPE, 32), D(make_top()), D2(make_top()), bl(0), bu(0) {
    for (int k = 0; k < N; k++) {
      c.a.push_back(fresh("a0"));
      c.b.push_back(fresh("b0"));
    }
    c.i = fresh("i0");
    c.x = fresh("x0");
    c.v = fresh("v0");
    c.w = fresh("w0");
    c2 = c;
  }
};
static term sel(const std::vector<term> &arr, const term &idx) { // arr[idx / ESZ]
  term r = arr[N - 1];
  for (int k = N - 2; k >= 0; k--) r = sx::ite(idx == term(k * ESZ), arr[k], r);
  return r;
}
static void upd(std::vector<term> &arr, const term &idx, const term &val) {
  for (int k = 0; k < N; k++) arr[k] = sx::ite(idx == term(k * ESZ), val, arr[k]);
}
// every exported constraint over the scalar variables holds on the concrete scalars (relational bases keep
// relations between the loaded value and the stored variables)
static void check_scalars(world &W, const char *what) {
  auto csts = W.D.to_linear_constraint_system();
  for (auto const &c : csts) {
    term v(c.expression().constant());
    bool known = true;
    for (auto it = c.expression().begin(); it != c.expression().end(); ++it) {
      const var_t &x = (*it).second;
      term val(0);
      if (x.index() == W.I.index()) val = W.c.i;
      else if (x.index() == W.X.index()) val = W.c.x;
      else if (x.index() == W.Vv.index()) val = W.c.v;
      else if (x.index() == W.Ww.index()) val = W.c.w;
      else known = false;
      v = v + term((*it).first) * val;
    }
    if (!known) continue;
    form f = c.is_inequality() ? (v <= term(0)) : c.is_strict_inequality() ? (v < term(0)) : c.is_equality() ? (v == term(0)) : !(v == term(0));
    check(f, (std::string(what) + ": exported constraint over the scalars holds").c_str());
  }
}
static void check_load(world &W, const term &conc, const char *what) {
  if (B(W.D.is_bottom())) {
    check(form(false), (std::string(what) + ": state became bottom").c_str());
    return;
  }
  check(mem(W.D.at(W.X), conc), (std::string(what) + ": loaded value in at(lhs)").c_str());
  check_scalars(W, what);
}
static void step(world &W, const std::string &opstr) {
  std::vector<std::string> a = hx::split_csv(opstr, '.');
  auto I = [&](size_t i) { return atol(a.at(i).c_str()); };
  lexp_t esz = lexp_t(znum((int64_t)ESZ));
  const std::string &op = a[0];
  if (op == "init") { // all cells of a := v0
    term v = fresh("init");
    W.D.array_init(W.A, esz, lexp_t(znum(0)), lexp_t(znum((N - 1) * ESZ)), lexp_t(v.num()));
    for (int k = 0; k < N; k++) W.c.a[k] = v;
  } else if (op == "initv") { // initial value given by a variable with symbolic bounds
    term l = fresh("l"), u = fresh("u");
    sx::assume(l <= W.c.v && W.c.v <= u);
    W.have_bounds = true;
    W.bl = l;
    W.bu = u;
    W.D += lcsts_t(lcst_t(lexp_t(l.num()) - lexp_t(W.Vv), lcst_t::INEQUALITY));
    W.D += lcsts_t(lcst_t(lexp_t(W.Vv) - lexp_t(u.num()), lcst_t::INEQUALITY));
    W.D.array_init(W.A, esz, lexp_t(znum(0)), lexp_t(znum((N - 1) * ESZ)), lexp_t(W.Vv));
    for (int k = 0; k < N; k++) W.c.a[k] = W.c.v;
  } else if (op == "storec") { // a[k*esz] := v  (constant index)
    term v = fresh("sv");
    W.D.array_store(W.A, esz, lexp_t(znum(I(1) * ESZ)), lexp_t(v.num()), N == 1);
    W.c.a[I(1)] = v;
  } else if (op == "idx") { // i := symbolic cell index, abstractly 0 <= i <= (N-1)*esz  [lo.hi optional cell range]
    long lo = a.size() > 1 ? I(1) : 0, hi = a.size() > 2 ? I(2) : N - 1;
    term j = fresh("j");
    sx::assume(j >= term(lo) && j <= term(hi));
    W.c.i = j * term(ESZ);
    W.D -= W.I;
    W.D += lcsts_t(lcst_t(lexp_t(znum(lo * ESZ)) - lexp_t(W.I), lcst_t::INEQUALITY));
    W.D += lcsts_t(lcst_t(lexp_t(W.I) - lexp_t(znum(hi * ESZ)), lcst_t::INEQUALITY));
  } else if (op == "stores") { // a[i] := v  (symbolic index)
    term v = fresh("sv");
    W.D.array_store(W.A, esz, lexp_t(W.I), lexp_t(v.num()), N == 1);
    upd(W.c.a, W.c.i, v);
  } else if (op == "storev") { // a[i] := variable v with symbolic bounds
    term l = fresh("l"), u = fresh("u"), nv = fresh("nv");
    sx::assume(l <= nv && nv <= u);
    W.c.v = nv;
    W.D -= W.Vv;
    W.D += lcsts_t(lcst_t(lexp_t(l.num()) - lexp_t(W.Vv), lcst_t::INEQUALITY));
    W.D += lcsts_t(lcst_t(lexp_t(W.Vv) - lexp_t(u.num()), lcst_t::INEQUALITY));
    W.D.array_store(W.A, esz, lexp_t(W.I), lexp_t(W.Vv), N == 1);
    upd(W.c.a, W.c.i, nv);
  } else if (op == "storew") { // a[i] := variable w (another variable than the one used by initv/storev) with symbolic bounds
    term nw = fresh("nw");
    term l = W.have_bounds ? W.bl : term(0), u = W.have_bounds ? W.bu : term(9); // no earlier bounds: w ranges over [0,9]
    sx::assume(l <= nw && nw <= u);
    W.c.w = nw;
    W.D -= W.Ww;
    W.D += lcsts_t(lcst_t(lexp_t(l.num()) - lexp_t(W.Ww), lcst_t::INEQUALITY));
    W.D += lcsts_t(lcst_t(lexp_t(W.Ww) - lexp_t(u.num()), lcst_t::INEQUALITY));
    W.D.array_store(W.A, esz, lexp_t(W.I), lexp_t(W.Ww), N == 1);
    upd(W.c.a, W.c.i, nw);
  } else if (op == "rangew") { // forall k in [k1,k2]: a[k*esz] := w
    term nw = fresh("nw");
    term l = W.have_bounds ? W.bl : term(0), u = W.have_bounds ? W.bu : term(9); // no earlier bounds: w ranges over [0,9]
    sx::assume(l <= nw && nw <= u);
    W.c.w = nw;
    W.D -= W.Ww;
    W.D += lcsts_t(lcst_t(lexp_t(l.num()) - lexp_t(W.Ww), lcst_t::INEQUALITY));
    W.D += lcsts_t(lcst_t(lexp_t(W.Ww) - lexp_t(u.num()), lcst_t::INEQUALITY));
    W.D.array_store_range(W.A, esz, lexp_t(znum(I(1) * ESZ)), lexp_t(znum(I(2) * ESZ)), lexp_t(W.Ww));
    for (long k = I(1); k <= I(2) && k < N; k++) W.c.a[k] = nw;
  } else if (op == "range") { // forall k in [k1,k2]: a[k*esz] := v
    term v = fresh("rv");
    W.D.array_store_range(W.A, esz, lexp_t(znum(I(1) * ESZ)), lexp_t(znum(I(2) * ESZ)), lexp_t(v.num()));
    for (long k = I(1); k <= I(2) && k < N; k++) W.c.a[k] = v;
  } else if (op == "loadc") {
    W.D.array_load(W.X, W.A, esz, lexp_t(znum(I(1) * ESZ)));
    W.c.x = W.c.a[I(1)];
    check_load(W, W.c.x, "load a[const]");
  } else if (op == "loads") {
    W.D.array_load(W.X, W.A, esz, lexp_t(W.I));
    W.c.x = sel(W.c.a, W.c.i);
    check_load(W, W.c.x, "load a[i]");
  } else if (op == "loadb") {
    W.D.array_load(W.X, W.Bv, esz, lexp_t(znum(I(1) * ESZ)));
    W.c.x = W.c.b[I(1)];
    check_load(W, W.c.x, "load b[const]");
  } else if (op == "asg") { // b := a
    W.D.array_assign(W.Bv, W.A);
    W.c.b = W.c.a;
  } else if (op == "asgba") { // a := b
    W.D.array_assign(W.A, W.Bv);
    W.c.a = W.c.b;
  } else if (op == "cpy") {
    W.D2 = W.D;
    W.c2 = W.c;
  } else if (op == "swp") {
    std::swap(W.D, W.D2);
    std::swap(W.c, W.c2);
  } else if (op == "join" || op == "wid") {
    term p = fresh("pick");
    sx::assume(p >= term(0) && p <= term(1));
    form pick = p == term(1);
    W.D = op == "join" ? (W.D | W.D2) : (W.D || W.D2);
    for (int k = 0; k < N; k++) {
      W.c.a[k] = sx::ite(pick, W.c.a[k], W.c2.a[k]);
      W.c.b[k] = sx::ite(pick, W.c.b[k], W.c2.b[k]);
    }
    W.c.i = sx::ite(pick, W.c.i, W.c2.i);
    W.c.x = sx::ite(pick, W.c.x, W.c2.x);
    W.c.v = sx::ite(pick, W.c.v, W.c2.v);
    W.c.w = sx::ite(pick, W.c.w, W.c2.w);
  } else
    throw sxe::no_verdict{"unknown-op"};
  check(form(!B(W.D.is_bottom())), "array operation does not turn a reachable state into bottom");
}
static void harness() {
  // array_adaptive parameters of this job
  auto &P = crab::domains::crab_domain_params_man::get();
  P.set_param("array_adaptive.is_smashable", sx::opts().get("smashable", "true"));
  P.set_param("array_adaptive.smash_at_nonzero_offset", sx::opts().get("nonzero", "true"));
  P.set_param("array_adaptive.max_smashable_cells", sx::opts().get("maxsmash", "64"));
  P.set_param("array_adaptive.max_array_size", sx::opts().get("maxsize", "64"));
  world W;
  for (auto &o : seq) step(W, o);
}
int main(int argc, char **argv) {
  sx::parse_args(argc, argv);
  N = (int)sx::opts().geti("n", 3);
  ESZ = sx::opts().geti("esz", 4);
  seq = hx::split_csv(sx::opts().get("seq", "init,loadc.0"));
  return sx::run(argc, argv, harness);
}
