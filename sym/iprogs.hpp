// iprogs.hpp — call-graph skeletons for the inter-procedural properties (C09, C10): functions with
// declarations (inputs/outputs), call sites, direct and mutual recursion; constants symbolic per job.
#pragma once
#include "progs.hpp"
#include <crab/cg/cg.hpp>
#include <crab/cg/cg_bgl.hpp>

namespace ipg {
using namespace pg;
typedef crab::cg::call_graph<cfg_ref_t> cg_t;

struct func {
  std::unique_ptr<cfg_t> cfg;
  std::vector<var_t> vars;     // every variable that occurs in the function
  std::vector<var_t> ins, outs;
  std::string name;
};
struct iprogram {
  vfac_t vf;
  std::vector<std::unique_ptr<func>> funcs;
  std::vector<sx::term> consts;
  std::set<int> symset;
  long range = 0;
  int nconst = 0;
  std::map<const void *, int> assert_id;
  std::vector<crab::cfg::debug_info> assert_dbg;
  var_t iv(const std::string &n) { return var_t(vf[n], crab::INT_TYPE, 32); }
  znum K(long dflt) {
    int i = nconst++;
    sx::term t(dflt);
    if (symset.count(i)) {
      t = sx::fresh(("K" + std::to_string(i)).c_str());
      if (range > 0) sx::assume(t >= sx::term(dflt - range) && t <= sx::term(dflt + range));
    }
    consts.push_back(t);
    return t.num();
  }
  func &mkf(const std::string &name, std::vector<var_t> ins, std::vector<var_t> outs, std::vector<var_t> locals, const char *entry, const char *exit) {
    funcs.emplace_back(new func());
    func &f = *funcs.back();
    f.name = name;
    f.ins = ins;
    f.outs = outs;
    f.vars = ins;
    f.vars.insert(f.vars.end(), outs.begin(), outs.end());
    f.vars.insert(f.vars.end(), locals.begin(), locals.end());
    f.cfg.reset(new cfg_t(entry, exit, cfg_t::fdecl_t(name, ins, outs)));
    return f;
  }
  template <class BB> void asrt(BB &bb, const lcst_t &c) {
    int n = (int)assert_dbg.size();
    crab::cfg::debug_info di("prog", n + 1, 1, n + 1);
    assert_dbg.push_back(di);
    assert_id[(const void *)bb.assertion(c, di)] = n;
  }
  func *find(const std::string &n) {
    for (auto &f : funcs)
      if (f->name == n) return f.get();
    return nullptr;
  }
};

inline void ibuild(iprogram &P, const std::string &name) {
  if (name == "call1") { // main: x := K0; y := f(x); assert(y <= K2)      f(a): r := a + K1
    var_t x = P.iv("x"), y = P.iv("y"), a = P.iv("a"), r = P.iv("r");
    func &f = P.mkf("f", {a}, {r}, {}, "fe", "fx");
    auto &fe = f.cfg->insert("fe");
    auto &fx = f.cfg->insert("fx");
    fe >> fx;
    fe.assign(r, E(a) + E(P.K(1)));
    func &m = P.mkf("main", {}, {}, {x, y}, "me", "mx");
    auto &me = m.cfg->insert("me");
    auto &mx = m.cfg->insert("mx");
    me >> mx;
    me.assign(x, E(P.K(0)));
    me.callsite("f", {y}, {x});
    P.asrt(mx, le(E(y), E(P.K(5))));
  } else if (name == "overwrite") { // x := f(x): the output overwrites the argument; callee local shares a caller's name
    var_t x = P.iv("x"), y = P.iv("y"), a = P.iv("a"), r = P.iv("r");
    func &f = P.mkf("f", {a}, {r}, {y}, "fe", "fx");
    auto &fe = f.cfg->insert("fe");
    auto &fx = f.cfg->insert("fx");
    fe >> fx;
    fe.assign(y, E(a) + E(P.K(3)));   // callee local 'y' has the same name as the caller's y
    fx.sub(r, y, P.K(1));
    func &m = P.mkf("main", {}, {}, {x, y}, "me", "mx");
    auto &me = m.cfg->insert("me");
    auto &m2 = m.cfg->insert("m2");
    auto &mx = m.cfg->insert("mx");
    me >> m2; m2 >> mx;
    me.havoc(x);
    me.assume(le(E(P.K(0)), E(x)));
    me.assume(le(E(x), E(P.K(4))));
    me.assign(y, E(P.K(7)));
    m2.callsite("f", {x}, {x});
    P.asrt(mx, le(E(x), E(y)));
  } else if (name == "twice") { // repeated calls in different contexts (context joining when the bound is exceeded)
    var_t p = P.iv("p"), q = P.iv("q"), c = P.iv("c"), d = P.iv("d"), t1 = P.iv("t1"), t2 = P.iv("t2"), t3 = P.iv("t3"), n = P.iv("n"), r = P.iv("r");
    func &f = P.mkf("f", {n}, {r}, {}, "fe", "fx");
    auto &fe = f.cfg->insert("fe");
    auto &ft = f.cfg->insert("ft");
    auto &ff1 = f.cfg->insert("ff1");
    auto &ff2 = f.cfg->insert("ff2");
    auto &fx = f.cfg->insert("fx");
    fe >> ft; fe >> ff1; fe >> ff2; ft >> fx; ff1 >> fx; ff2 >> fx;
    znum mid = P.K(5);
    ft.assume(eq(E(n), E(mid)));
    ft.assign(r, E(P.K(100)));
    ff1.assume(lt(E(n), E(mid)));
    ff1.assign(r, E(znum(0)));
    ff2.assume(lt(E(mid), E(n)));
    ff2.assign(r, E(znum(0)));
    func &m = P.mkf("main", {}, {}, {p, q, c, d, t1, t2, t3}, "me", "mx");
    auto &me = m.cfg->insert("me");
    auto &mx = m.cfg->insert("mx");
    me >> mx;
    me.assign(t1, E(P.K(0)));
    me.callsite("f", {p}, {t1});
    me.assign(t2, E(P.K(10)));
    me.callsite("f", {q}, {t2});
    me.assign(t3, E(P.K(5)));
    me.callsite("f", {c}, {t3});
    mx.add(d, p, c);
    P.asrt(mx, le(E(d), E(P.K(50))));
  } else if (name == "rec") { // direct recursion: loop(x) = if x <= N then loop(x+1) else x
    var_t xi = P.iv("xi"), xo = P.iv("xo"), xn = P.iv("xn"), s = P.iv("s"), res = P.iv("res");
    func &f = P.mkf("loop", {xi}, {xo}, {xn}, "e", "x");
    auto &e = f.cfg->insert("e");
    auto &rc = f.cfg->insert("rc");
    auto &bc = f.cfg->insert("bc");
    auto &xx = f.cfg->insert("x");
    e >> rc; e >> bc; rc >> xx; bc >> xx;
    znum N = P.K(2);
    rc.assume(le(E(xi), E(N)));
    rc.add(xn, xi, P.K(1));
    rc.callsite("loop", {xo}, {xn});
    bc.assume(lt(E(N), E(xi)));
    bc.assign(xo, E(xi));
    func &m = P.mkf("main", {}, {}, {s, res}, "me", "mx");
    auto &me = m.cfg->insert("me");
    auto &mx = m.cfg->insert("mx");
    me >> mx;
    me.assign(s, E(P.K(0)));
    me.callsite("loop", {res}, {s});
    P.asrt(mx, le(E(res), E(P.K(4))));
  } else if (name == "mutual") { // mutual recursion: even/odd style counters
    var_t a = P.iv("a"), ra = P.iv("ra"), a1 = P.iv("a1"), b = P.iv("b"), rb = P.iv("rb"), b1 = P.iv("b1"), s = P.iv("s"), res = P.iv("res");
    func &f = P.mkf("f1", {a}, {ra}, {a1}, "e1", "x1");
    {
      auto &e = f.cfg->insert("e1");
      auto &rc = f.cfg->insert("r1");
      auto &bc = f.cfg->insert("b1");
      auto &xx = f.cfg->insert("x1");
      e >> rc; e >> bc; rc >> xx; bc >> xx;
      znum N = P.K(3);
      rc.assume(le(E(a), E(N)));
      rc.add(a1, a, znum(1));
      rc.callsite("f2", {ra}, {a1});
      bc.assume(lt(E(N), E(a)));
      bc.assign(ra, E(a));
    }
    func &g = P.mkf("f2", {b}, {rb}, {b1}, "e2", "x2");
    {
      auto &e = g.cfg->insert("e2");
      auto &xx = g.cfg->insert("x2");
      e >> xx;
      e.add(b1, b, P.K(1));
      e.callsite("f1", {rb}, {b1});
    }
    func &m = P.mkf("main", {}, {}, {s, res}, "me", "mx");
    auto &me = m.cfg->insert("me");
    auto &mx = m.cfg->insert("mx");
    me >> mx;
    me.assign(s, E(P.K(0)));
    me.callsite("f1", {res}, {s});
    P.asrt(mx, le(E(res), E(P.K(6))));
  } else if (name == "loopcall") { // i := inc(i) in a loop (lhs already constrained before the call)
    var_t i = P.iv("i"), a = P.iv("a"), r = P.iv("r");
    func &f = P.mkf("inc", {a}, {r}, {}, "fe", "fx");
    auto &fe = f.cfg->insert("fe");
    auto &fx = f.cfg->insert("fx");
    fe >> fx;
    fe.add(r, a, P.K(1));
    func &m = P.mkf("main", {}, {}, {i}, "me", "mx");
    auto &me = m.cfg->insert("me");
    auto &mh = m.cfg->insert("mh");
    auto &mb = m.cfg->insert("mb");
    auto &mx = m.cfg->insert("mx");
    me >> mh; mh >> mb; mb >> mh; mh >> mx;
    me.assign(i, E(P.K(0)));
    mb.assume(le(E(i), E(P.K(3))));
    mb.callsite("inc", {i}, {i});
    mx.assume(lt(E(P.consts[2].num()), E(i)));
    P.asrt(mx, le(E(i), E(P.K(5))));
  } else if (name == "absf") { // x := abs(x) with a negative argument
    var_t x = P.iv("x"), a = P.iv("a"), r = P.iv("r");
    func &f = P.mkf("abs", {a}, {r}, {}, "fe", "fx");
    auto &fe = f.cfg->insert("fe");
    auto &fp = f.cfg->insert("fp");
    auto &fn = f.cfg->insert("fn");
    auto &fx = f.cfg->insert("fx");
    fe >> fp; fe >> fn; fp >> fx; fn >> fx;
    fp.assume(le(E(znum(0)), E(a)));
    fp.assign(r, E(a));
    fn.assume(lt(E(a), E(znum(0))));
    fn.assign(r, E(znum(-1), a));
    func &m = P.mkf("main", {}, {}, {x}, "me", "mx");
    auto &me = m.cfg->insert("me");
    auto &mx = m.cfg->insert("mx");
    me >> mx;
    me.assign(x, E(P.K(-5)));
    me.callsite("abs", {x}, {x});
    P.asrt(mx, le(E(x), E(P.K(9))));
  } else if (name == "nest3") { // nested recursive components: call-graph wto  main (f1 (f2 g))
    // f1(n): n<=0 ? r=B : { a=f2(n-1); b=g(n-1);  r=b+INC }     f2(k): k<=0 ? B : { p=g(k-1);  q=f1(k-1); q+INC }
    // g(m) : m<=0 ? r=B : { u=f2(m-1); v=f1(m-1); r=v+INC }     main: x in [0,MAX]; y=f1(x); assert(y<=K)
    znum INC = P.K(3), B = P.K(0), MAX = P.K(4);
    const char *callee1[3] = {"f2", "g", "f2"}, *callee2[3] = {"g", "f1", "f1"}, *names[3] = {"f1", "f2", "g"};
    for (int k = 0; k < 3; k++) {
      std::string fn = names[k];
      var_t in = P.iv(fn + "_in"), out = P.iv(fn + "_out"), c = P.iv(fn + "_c"), d1 = P.iv(fn + "_d1"), d2 = P.iv(fn + "_d2");
      func &f = P.mkf(fn, {in}, {out}, {c, d1, d2}, "e", "x");
      auto &e = f.cfg->insert("e");
      auto &bs = f.cfg->insert("bs");
      auto &rc = f.cfg->insert("rc");
      auto &xx = f.cfg->insert("x");
      e >> bs; e >> rc; bs >> xx; rc >> xx;
      bs.assume(le(E(in), E(znum(0))));
      bs.assign(out, E(B));
      rc.assume(le(E(znum(1)), E(in)));
      rc.sub(c, in, znum(1));
      rc.callsite(callee1[k], {d1}, {c});
      rc.callsite(callee2[k], {d2}, {c});
      rc.add(out, d2, INC);
    }
    var_t x = P.iv("x"), y = P.iv("y");
    func &m = P.mkf("main", {}, {}, {x, y}, "me", "mx");
    auto &me = m.cfg->insert("me");
    auto &mx = m.cfg->insert("mx");
    me >> mx;
    me.havoc(x);
    me.assume(le(E(znum(0)), E(x)));
    me.assume(le(E(x), E(MAX)));
    me.callsite("f1", {y}, {x});
    P.asrt(mx, le(E(y), E(P.K(9))));
  } else if (name == "refparam") { // reference / region parameters; the callee's formals p, R share their names with other caller variables
    // foo(p:ref, Rf:region, n) -> res { res := n + K1 }    main: p := make_ref(R); q := make_ref(R); q2 := gep(q, 4); x := K0; y := foo(q2, R, x)
    var_t p(P.vf["p"], crab::REF_TYPE, 32), q(P.vf["q"], crab::REF_TYPE, 32), q2(P.vf["q2"], crab::REF_TYPE, 32);
    var_t R(P.vf["R"], crab::REG_INT_TYPE, 32), Rf(P.vf["Rf"], crab::REG_INT_TYPE, 32);
    var_t n = P.iv("n"), res = P.iv("res"), x = P.iv("x"), y = P.iv("y");
    typedef crab::variable_or_constant<znum, varname_t> voc_t;
    voc_t sz(znum(8), crab::variable_type(crab::INT_TYPE, 32));
    static crab::tag_manager tm;
    func &f = P.mkf("foo", {p, Rf, n}, {res}, {}, "fe", "fx");
    f.vars = {n, res}; // only the integer variables are compared with the concrete state
    auto &fe = f.cfg->insert("fe");
    auto &fx = f.cfg->insert("fx");
    fe >> fx;
    fe.add(res, n, P.K(1));
    func &m = P.mkf("main", {}, {}, {}, "me", "mx");
    m.vars = {x, y};
    auto &me = m.cfg->insert("me");
    auto &m2 = m.cfg->insert("m2");
    auto &mx = m.cfg->insert("mx");
    me >> m2; m2 >> mx;
    me.region_init(R);
    me.make_ref(p, R, sz, tm.mk_tag());
    me.make_ref(q, R, sz, tm.mk_tag());
    me.gep_ref(q2, R, q, R, lexp_t(znum(4)));
    me.assign(x, E(P.K(5)));
    m2.callsite("foo", {y}, {q2, R, x});
    P.asrt(mx, le(E(y), E(P.K(7))));
  } else
    throw sxe::no_verdict{"unknown-inter-program"};
}
} // namespace ipg
