// SHADOW of crab/numbers/bignums.hpp for engine E2 (see /verif/DESIGN.md §2).
//
// Placed FIRST on the include path of a symbolic (SX_SYM) build, so that every crab
// header and every lib/*.cpp unit that says `ikos::z_number` gets this class: an
// integer whose value is a z3 Int term.  Arithmetic builds terms; every comparison asks
// the engine which outcomes are feasible under the current path condition and forks.
// The real crab code then runs natively once per feasible path.
#pragma once
#ifndef SX_SYM
#error "shadow bignums.hpp is only for SX_SYM builds"
#endif
#include <boost/functional/hash.hpp>
#include <crab/support/os.hpp>
#include <cstdint>
#include <cstdlib>
#include <map>
#include <string>
#include <vector>
#include <z3++.h>

namespace sxe {
struct abort_path { const char *why; };   // path ends: inputs on it are outside the claim (counted)
struct skip_path {};                      // path belongs to another shard
struct no_verdict { const char *why; };   // the whole run cannot conclude

struct dec {            // one recorded decision
  int kind;             // 0 = boolean branch, 1 = concretisation
  bool b;               // kind 0: outcome
  int64_t v;            // kind 1: chosen value (valid if !again)
  bool again;           // kind 1: pick a new value, excluding excl
  std::vector<int64_t> excl;
  bool fork;            // kind 0: both outcomes were feasible when first met
  size_t h;             // hash of the condition (determinism guard)
};

struct engine {
  z3::context c;
  z3::solver s;
  std::vector<dec> decisions;
  size_t pos = 0;
  std::vector<std::vector<dec>> work;
  // per-path logs
  std::vector<std::pair<std::string, z3::expr>> inputs; // named symbolic inputs, creation order
  std::vector<z3::expr> obs;                            // crab-computed values the harness looked at
  std::vector<std::string> trace;                       // check labels evaluated
  unsigned long forks_on_path = 0;
  // global counters
  unsigned long nfresh = 0, solver_calls = 0, branches = 0, concretisations = 0, unknowns = 0;
  double solver_s = 0;
  int shard_k = 0, shard_n = 1, shard_depth = 0;
  unsigned long shard_bits = 0;
  bool check_hash = false;   // structural hashes of z3 terms are not stable across re-executions (argument order follows AST ids)
  bool prefix_checked = false;
  size_t max_depth = 20000;
  engine() : s(c) {
    z3::params p(c);
    p.set("timeout", 60000u);
    s.set(p);
  }
  static engine &get() {
    static engine e;
    return e;
  }
  void reset(const std::vector<dec> &d) {
    decisions = d;
    pos = 0;
    s.reset();
    nfresh = 0;
    inputs.clear();
    obs.clear();
    trace.clear();
    forks_on_path = 0;
    shard_bits = 0;
    prefix_checked = d.empty();
  }
  // determinism guard: when the recorded prefix has been replayed, its path condition must be
  // satisfiable (it was when the prefix was recorded); otherwise the re-execution diverged
  void end_of_prefix() {
    if (prefix_checked) return;
    prefix_checked = true;
    z3::check_result r = timed_check();
    if (r != z3::sat) throw no_verdict{"nondeterministic-replay(prefix infeasible)"};
  }
  z3::check_result timed_check() {
    struct timespec a, b;
    clock_gettime(CLOCK_MONOTONIC, &a);
    z3::check_result r = s.check();
    clock_gettime(CLOCK_MONOTONIC, &b);
    solver_s += (b.tv_sec - a.tv_sec) + 1e-9 * (b.tv_nsec - a.tv_nsec);
    solver_calls++;
    if (r == z3::unknown) unknowns++;
    return r;
  }
  // 1 sat, 0 unsat; unknown => the run cannot conclude
  bool feasible(const z3::expr &e) {
    s.push();
    s.add(e);
    z3::check_result r = timed_check();
    s.pop();
    if (r == z3::unknown) throw no_verdict{"solver-unknown-in-branch"};
    return r == z3::sat;
  }
  void note_fork(bool outcome) {
    if (forks_on_path < (unsigned long)shard_depth) {
      shard_bits = shard_bits * 2 + (outcome ? 1 : 0);
      forks_on_path++;
      if (forks_on_path == (unsigned long)shard_depth && shard_n > 1 &&
          (int)(shard_bits * 2654435761UL % 1000003UL % shard_n) != shard_k)
        throw skip_path();
    } else
      forks_on_path++;
  }
  bool owns_short_path() const {
    if (shard_n <= 1 || forks_on_path >= (unsigned long)shard_depth) return true;
    return (int)(shard_bits * 2654435761UL % 1000003UL % shard_n) == shard_k;
  }
  static size_t cond_hash(const z3::expr &e) { return (size_t)e.hash(); }
  bool decide(z3::expr cond) {
    cond = cond.simplify();
    if (cond.is_true()) return true;
    if (cond.is_false()) return false;
    branches++;
    if (pos > max_depth) throw no_verdict{"path-too-long(possible divergence on symbolic input)"};
    bool out;
    if (pos < decisions.size()) {
      dec &d = decisions[pos];
      if (d.kind != 0) throw no_verdict{"nondeterministic-replay(kind)"};
      if (check_hash && d.h != cond_hash(cond)) throw no_verdict{"nondeterministic-replay(condition)"};
      out = d.b;
      if (d.fork) note_fork(out);
    } else {
      end_of_prefix();
      bool t = feasible(cond), f = feasible(!cond);
      dec d{0, true, 0, false, {}, false, cond_hash(cond)};
      if (t && f) {
        d.fork = true;
        std::vector<dec> alt(decisions);
        dec a = d;
        a.b = false;
        alt.push_back(a);
        work.push_back(alt);
        out = true;
      } else if (t)
        out = true;
      else if (f)
        out = false;
      else
        throw abort_path{"infeasible"};
      d.b = out;
      decisions.push_back(d);
      if (d.fork) note_fork(out);
    }
    pos++;
    s.add(out ? cond : !cond);
    return out;
  }
  // fork over the feasible concrete values of e (at most `limit` of them)
  int64_t concretise(z3::expr e, unsigned limit = 64) {
    e = e.simplify();
    int64_t v;
    if (e.is_numeral_i64(v)) return v;
    concretisations++;
    std::vector<int64_t> excl;
    bool pick = true;
    if (pos < decisions.size()) {
      dec &d = decisions[pos];
      if (d.kind != 1) throw no_verdict{"nondeterministic-replay(kind)"};
      if (!d.again) {
        v = d.v;
        pick = false;
      } else
        excl = d.excl;
    }
    if (pick) {
      if (pos >= decisions.size()) end_of_prefix();
      for (int64_t x : excl) s.add(e != c.int_val(x));
      z3::check_result r = timed_check();
      if (r == z3::unknown) throw no_verdict{"solver-unknown-in-concretise"};
      if (r == z3::unsat) throw abort_path{"infeasible"};
      z3::model m = s.get_model();
      z3::expr ve = m.eval(e, true);
      if (!ve.is_numeral_i64(v)) throw no_verdict{"concretise-non-int64"};
      if (excl.size() + 1 > limit) throw no_verdict{"unbounded-concretisation"};
      // is another value feasible?
      std::vector<int64_t> ex2(excl);
      ex2.push_back(v);
      if (feasible(e != c.int_val(v))) {
        std::vector<dec> alt(decisions.begin(), decisions.begin() + pos);
        alt.push_back(dec{1, false, 0, true, ex2, false, 0});
        work.push_back(alt);
      }
      dec d{1, false, v, false, {}, false, 0};
      if (pos < decisions.size())
        decisions[pos] = d;
      else
        decisions.push_back(d);
    }
    pos++;
    s.add(e == c.int_val(v));
    return v;
  }
  z3::expr fresh_int(const std::string &tag) {
    std::string nm = tag + "#" + std::to_string(nfresh++);
    z3::expr v = c.int_const(nm.c_str());
    inputs.push_back({nm, v});
    return v;
  }
  z3::expr fresh_bool(const std::string &tag) {
    std::string nm = tag + "#" + std::to_string(nfresh++);
    z3::expr v = c.bool_const(nm.c_str());
    inputs.push_back({nm, v});
    return v;
  }
  void assume(const z3::expr &e) {
    s.add(e);
    z3::check_result r = timed_check();
    if (r == z3::unknown) throw no_verdict{"solver-unknown-in-assume"};
    if (r != z3::sat) throw abort_path{"assume-infeasible"};
  }
};
} // namespace sxe

namespace ikos {

class z_number {
  static z3::context &ctx() { return sxe::engine::get().c; }
  static z3::expr S(const z3::expr &x) { return x.simplify(); }

public:
  z3::expr e;
  z_number() : e(ctx().int_val(0)) {}
  z_number(int64_t n) : e(ctx().int_val((int64_t)n)) {}
  z_number(const z3::expr &x) : e(x) {}
  // a moved-from real z_number is a valid 0; never leave a null term behind
  z_number(const z_number &o) : e(o.e) {}
  z_number(z_number &&o) : e(o.e) { o.e = ctx().int_val(0); }            // as lib/bignums.cpp: source becomes 0
  z_number &operator=(const z_number &o) { e = o.e; return *this; }
  z_number &operator=(z_number &&o) { if (this != &o) { z3::expr t = e; e = o.e; o.e = t; } return *this; } // as lib/bignums.cpp: swap
  z_number(const std::string &s, unsigned base = 10) : e(ctx().int_val(0)) {
    if (base != 10) throw sxe::abort_path{"z_number-string-base"};
    e = ctx().int_val(s.c_str());
  }
  static z_number from_uint64(uint64_t n) { return z_number(ctx().int_val((uint64_t)n)); }
  static z_number from_raw_data(const uint64_t *, size_t, bool = false) { throw sxe::abort_path{"from_raw_data"}; }
  uint64_t *to_raw_data(size_t &, bool &, bool = false) { throw sxe::abort_path{"to_raw_data"}; }

  bool is_numeral(int64_t &v) const { return S(e).is_numeral_i64(v); }
  explicit operator int64_t() const {
    sxe::engine &E = sxe::engine::get();
    if (!E.decide(e >= ctx().int_val((int64_t)INT64_MIN) && e <= ctx().int_val((int64_t)INT64_MAX)))
      throw sxe::abort_path{"CRAB_ERROR:int64-overflow"};
    return E.concretise(e);
  }
  std::string get_str(unsigned = 10) const {
    z3::expr x = S(e);
    if (x.is_numeral()) {
      std::string s = x.get_decimal_string(0);
      return s;
    }
    return "<sym>";
  }
  std::size_t hash() const { return 0; }
  bool fits_int64() const {
    return sxe::engine::get().decide(e >= ctx().int_val((int64_t)INT64_MIN) && e <= ctx().int_val((int64_t)INT64_MAX));
  }

  z_number operator+(z_number x) const { return z_number(S(e + x.e)); }
  z_number operator*(z_number x) const { return z_number(S(e * x.e)); }
  z_number operator-(z_number x) const { return z_number(S(e - x.e)); }
  z_number operator-() const { return z_number(S(-e)); }
  // truncating quotient, as mpz_tdiv_q (z3's integer div is floor/euclidean)
  static z3::expr tdiv(const z3::expr &a, const z3::expr &b) {
    return z3::ite(b > 0, z3::ite(a >= 0, a / b, -((-a) / b)), z3::ite(a >= 0, -(a / (-b)), (-a) / (-b)));
  }
  z_number operator/(z_number x) const {
    if (x == z_number(0)) throw sxe::abort_path{"CRAB_ERROR:division-by-zero"};
    return z_number(S(tdiv(e, x.e)));
  }
  z_number operator%(z_number x) const {
    if (x == z_number(0)) throw sxe::abort_path{"CRAB_ERROR:division-by-zero"};
    return z_number(S(e - tdiv(e, x.e) * x.e));
  }
  z_number &operator+=(z_number x) { e = S(e + x.e); return *this; }
  z_number &operator*=(z_number x) { e = S(e * x.e); return *this; }
  z_number &operator-=(z_number x) { e = S(e - x.e); return *this; }
  z_number &operator/=(z_number x) { *this = *this / x; return *this; }
  z_number &operator%=(z_number x) { *this = *this % x; return *this; }
  z_number &operator--() { e = S(e - 1); return *this; }
  z_number &operator++() { e = S(e + 1); return *this; }
  z_number operator++(int) { z_number r(*this); ++*this; return r; }
  z_number operator--(int) { z_number r(*this); --*this; return r; }

  bool operator==(z_number x) const { return sxe::engine::get().decide(e == x.e); }
  bool operator!=(z_number x) const { return !sxe::engine::get().decide(e == x.e); }
  bool operator<(z_number x) const { return sxe::engine::get().decide(e < x.e); }
  bool operator<=(z_number x) const { return sxe::engine::get().decide(e <= x.e); }
  bool operator>(z_number x) const { return sxe::engine::get().decide(e > x.e); }
  bool operator>=(z_number x) const { return sxe::engine::get().decide(e >= x.e); }

  // two's-complement bitwise operations (mpz_and/ior/xor): exact for operands in
  // [-2^(BW-1), 2^(BW-1)); operands that may lie outside end the path ("bitop-range").
  enum { BW = 12 };
  static z3::expr bit(const z3::expr &u, int i) { // u in [0, 2^BW)
    return (u / ctx().int_val((int64_t)(1LL << i))) % ctx().int_val(2);
  }
  static z3::expr bitop(int op, const z3::expr &a, const z3::expr &b) {
    sxe::engine &E = sxe::engine::get();
    int64_t x, y;
    if (S(a).is_numeral_i64(x) && S(b).is_numeral_i64(y))
      return ctx().int_val((int64_t)(op == 0 ? (x & y) : op == 1 ? (x | y) : (x ^ y)));
    z3::expr lim = ctx().int_val((int64_t)(1LL << (BW - 1)));
    if (!E.decide(a >= -lim && a < lim && b >= -lim && b < lim)) throw sxe::abort_path{"bitop-range"};
    z3::expr M = ctx().int_val((int64_t)(1LL << BW));
    z3::expr ua = z3::ite(a >= 0, a, a + M), ub = z3::ite(b >= 0, b, b + M);
    z3::expr r = ctx().int_val(0);
    for (int i = 0; i < BW; i++) {
      z3::expr ba = bit(ua, i) == 1, bb = bit(ub, i) == 1;
      z3::expr o = op == 0 ? (ba && bb) : op == 1 ? (ba || bb) : (ba != bb);
      r = r + z3::ite(o, ctx().int_val((int64_t)(1LL << i)), ctx().int_val(0));
    }
    // sign bit of the BW-bit result decides the sign of the infinite-precision result
    return z3::ite(r >= lim, r - M, r);
  }
  z_number operator&(z_number x) const { return z_number(S(bitop(0, e, x.e))); }
  z_number operator|(z_number x) const { return z_number(S(bitop(1, e, x.e))); }
  z_number operator^(z_number x) const { return z_number(S(bitop(2, e, x.e))); }

  // shifts: the real wrappers pass mpz_get_ui(k) = |k| (low word) to GMP
  static int64_t shamt(const z_number &k) {
    sxe::engine &E = sxe::engine::get();
    if (!E.decide(k.e >= -62 && k.e <= 62)) throw sxe::abort_path{"shift-amount-range"};
    int64_t v = E.concretise(k.e, 130);
    return v < 0 ? -v : v;
  }
  z_number operator<<(z_number k) const { return z_number(S(e * ctx().int_val((int64_t)(1LL << shamt(k))))); }
  z_number operator>>(z_number k) const { return z_number(S(e / ctx().int_val((int64_t)(1LL << shamt(k))))); } // floor

  z_number fill_ones() const { // same loop as lib/bignums.cpp (forks per iteration)
    z_number x(*this);
    if (x == z_number(0)) return x;
    z_number result(1), z1(1), z2(2);
    for (; result < x; result = (z2 * result) + z1)
      ;
    return result;
  }
  void write(crab::crab_os &o) const { o << get_str(); }
};

// Placeholder rational: headers and lib units that mention q_number must compile; every
// operation ends the path (rationals are outside the E2 claim).
class q_number {
  [[noreturn]] static void na() { throw sxe::abort_path{"q_number"}; }

public:
  q_number() {}
  q_number(double) {}
  q_number(const std::string &, unsigned = 10) {}
  q_number(const z_number &) {}
  q_number(const z_number &, const z_number &) {}
  double get_double() const { na(); }
  std::string get_str(unsigned = 10) const { return "<q>"; }
  std::size_t hash() const { return 0; }
  q_number operator+(q_number) const { na(); }
  q_number operator*(q_number) const { na(); }
  q_number operator-(q_number) const { na(); }
  q_number operator-() const { na(); }
  q_number operator/(q_number) const { na(); }
  q_number &operator+=(q_number) { na(); }
  q_number &operator*=(q_number) { na(); }
  q_number &operator-=(q_number) { na(); }
  q_number &operator/=(q_number) { na(); }
  q_number &operator--() { na(); }
  q_number &operator++() { na(); }
  q_number operator--(int) { na(); }
  q_number operator++(int) { na(); }
  bool operator==(q_number) const { na(); }
  bool operator!=(q_number) const { na(); }
  bool operator<(q_number) const { na(); }
  bool operator<=(q_number) const { na(); }
  bool operator>(q_number) const { na(); }
  bool operator>=(q_number) const { na(); }
  q_number operator<<(q_number) const { na(); }
  z_number numerator() const { na(); }
  z_number denominator() const { na(); }
  z_number round_to_upper() const { na(); }
  z_number round_to_lower() const { na(); }
  void write(crab::crab_os &o) const { o << "<q>"; }
};

inline crab::crab_os &operator<<(crab::crab_os &o, const z_number &z) {
  z.write(o);
  return o;
}
inline crab::crab_os &operator<<(crab::crab_os &o, const q_number &q) {
  q.write(o);
  return o;
}
inline std::size_t hash_value(const z_number &z) { return z.hash(); }
inline std::size_t hash_value(const q_number &q) { return q.hash(); }
} // namespace ikos

namespace std {
template <> struct hash<ikos::z_number> {
  size_t operator()(const ikos::z_number &z) const { return z.hash(); }
};
template <> struct hash<ikos::q_number> {
  size_t operator()(const ikos::q_number &q) const { return q.hash(); }
};
} // namespace std
