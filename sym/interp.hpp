// interp.hpp — reference interpreter for CrabIR over sx terms (the oracle of the program-level
// properties).  It executes a REAL crab cfg object statement by statement:
//   assignment, binary operations (crab's integer semantics), select, havoc (fresh symbol),
//   assume (execution ends if the condition cannot hold), assert (records the outcome; a failing
//   assertion ends the execution), unreachable, Boolean statements, goto choice (forks).
// Every visited block entry/exit is reported to a client callback.  Bounded by `max_blocks`
// block visits per execution; a longer execution is cut (its prefix has been checked).
#pragma once
#include "sx.hpp"
#include <crab/cfg/cfg.hpp>
#include <functional>
#include <map>
#include <set>
#include <vector>

namespace interp {
using sx::form;
using sx::term;

struct stop_execution {}; // assume failed / assertion violated / unreachable / undefined operation

template <class CFG> class machine : public crab::cfg::statement_visitor<typename CFG::basic_block_label_t, typename CFG::number_t, typename CFG::varname_t> {
public:
  typedef typename CFG::basic_block_label_t label_t;
  typedef typename CFG::number_t number_t;
  typedef typename CFG::varname_t varname_t;
  typedef crab::variable<number_t, varname_t> var_t;
  typedef ikos::linear_expression<number_t, varname_t> lexp_t;
  typedef ikos::linear_constraint<number_t, varname_t> lcst_t;
  typedef crab::cfg::statement_visitor<label_t, number_t, varname_t> visitor_t;
  typedef std::map<ikos::index_t, term> env_t;

  env_t env;                          // integer and Boolean (0/1) variables
  long shift_max = 6;                 // shift amounts are kept in [0, shift_max]
  struct event { std::string kind; std::string where; form cond; const void *stmt; size_t pos; };
  std::vector<event> trace;           // evaluated conditions and assertion outcomes, in order
  std::vector<std::pair<const void *, form>> asserts_seen; // (statement, condition value) for every assert executed
  const void *cur_stmt = nullptr;
  bool in_trace_mode = false;
  // ---- twin executions (C17/C18): a second machine follows a recorded execution without forking
  std::vector<label_t> labels_log;          // blocks entered, in order
  std::vector<term> havoc_log;              // values produced by havoc/callsite outputs, in order
  env_t *shared_init = nullptr;             // initial values of variables read before written (shared by twins)
  bool guided = false;                      // no forking: conditions are only recorded
  const std::vector<label_t> *follow = nullptr;
  size_t fpos = 0;
  const std::vector<term> *havoc_src = nullptr;
  size_t hpos = 0;
  size_t stop_events = ~(size_t)0;          // stop after this many recorded conditions (the primary stopped there)
  bool lost = false;                        // the guided run could not follow the recorded execution
  // perturbation: at the k-th visit of block `pert_label` (entry or exit) variable pert_var gets a fresh value
  bool pert_on = false, pert_at_exit = true, pert_done = false;
  label_t pert_label;
  ikos::index_t pert_var = 0;
  unsigned pert_visit = 1;
  bool assert_failed = false;         // the execution ended at a violated assertion
  const void *failed_stmt = nullptr;         // record conditions instead of forking (used by C17/C18)

  term get(const var_t &v) {
    auto it = env.find(v.index());
    if (it != env.end()) return it->second;
    if (shared_init) {
      auto jt = shared_init->find(v.index());
      if (jt != shared_init->end()) {
        env.insert({v.index(), jt->second});
        return jt->second;
      }
    }
    term t = sx::fresh(("init." + v.name().str()).c_str());
    if (v.get_type().is_bool()) sx::assume(t >= term(0) && t <= term(1));
    env.insert({v.index(), t});
    if (shared_init) shared_init->insert({v.index(), t});
    return t;
  }
  void set(const var_t &v, const term &t) {
    auto it = env.find(v.index());
    if (it != env.end()) it->second = t;
    else env.insert({v.index(), t});
  }
  term eval(const lexp_t &e) {
    term r(e.constant());
    for (auto it = e.begin(); it != e.end(); ++it) r = r + term((*it).first) * get((*it).second);
    return r;
  }
  form eval(const lcst_t &c) {
    term v = eval(c.expression());
    if (c.is_inequality()) return v <= term(0);
    if (c.is_strict_inequality()) return v < term(0);
    if (c.is_equality()) return v == term(0);
    return v != term(0);
  }
  void require(const form &f) { // the execution continues only where f holds
    if (guided) {
      if (trace.size() >= stop_events) throw stop_execution();
      return;
    }
    if (!sx::decide(f)) throw stop_execution();
  }
  void require_assert(const form &f, const void *stmt) {
    if (guided) {
      if (trace.size() >= stop_events) throw stop_execution();
      return;
    }
    if (!sx::decide(f)) {
      assert_failed = true;
      failed_stmt = stmt;
      throw stop_execution();
    }
  }
  term pow2(const term &k) {
    term r(1);
    for (long i = shift_max; i >= 1; i--) r = sx::ite(k >= term(i), r * term(2), r);
    return r;
  }

  using typename visitor_t::assert_t;
  using typename visitor_t::assign_t;
  using typename visitor_t::assume_t;
  using typename visitor_t::bin_op_t;
  using typename visitor_t::bool_assert_t;
  using typename visitor_t::bool_assign_cst_t;
  using typename visitor_t::bool_assign_var_t;
  using typename visitor_t::bool_assume_t;
  using typename visitor_t::bool_bin_op_t;
  using typename visitor_t::bool_select_t;
  using typename visitor_t::havoc_t;
  using typename visitor_t::int_cast_t;
  using typename visitor_t::select_t;
  using typename visitor_t::unreach_t;
  using typename visitor_t::callsite_t;
  using typename visitor_t::intrinsic_t;

  void visit(bin_op_t &s) override {
    term x = eval(s.left()), y = eval(s.right()), r(0);
    using namespace crab::cfg;
    switch (s.op()) {
    case BINOP_ADD: r = x + y; break;
    case BINOP_SUB: r = x - y; break;
    case BINOP_MUL: r = x * y; break;
    case BINOP_SDIV: require(y != term(0)); r = sx::tdiv(x, y); break;
    case BINOP_SREM: require(y != term(0)); r = sx::trem(x, y); break;
    // unsigned operations are modelled on non-negative operands only (otherwise the value
    // depends on a bit width that unbounded-integer domains do not have): execution is cut
    case BINOP_UDIV: require(x >= term(0) && y > term(0)); r = sx::tdiv(x, y); break;
    case BINOP_UREM: require(x >= term(0) && y > term(0)); r = sx::trem(x, y); break;
    case BINOP_AND: require(x >= term(-2047) && x <= term(2047) && y >= term(-2047) && y <= term(2047)); r = sx::bitop(0, x, y, 12); break;
    case BINOP_OR: require(x >= term(-2047) && x <= term(2047) && y >= term(-2047) && y <= term(2047)); r = sx::bitop(1, x, y, 12); break;
    case BINOP_XOR: require(x >= term(-2047) && x <= term(2047) && y >= term(-2047) && y <= term(2047)); r = sx::bitop(2, x, y, 12); break;
    case BINOP_SHL: require(y >= term(0) && y <= term(shift_max)); r = x * pow2(y); break;
    case BINOP_ASHR: require(y >= term(0) && y <= term(shift_max)); r = sx::fdiv(x, pow2(y)); break;
    case BINOP_LSHR: require(x >= term(0) && y >= term(0) && y <= term(shift_max)); r = sx::fdiv(x, pow2(y)); break;
    }
    set(s.lhs(), r);
  }
  void visit(assign_t &s) override { set(s.lhs(), eval(s.rhs())); }
  void visit(assume_t &s) override {
    form c = eval(s.constraint());
    trace.push_back({"assume", "", c, cur_stmt, labels_log.size() - 1});
    require(c);
  }
  void visit(select_t &s) override {
    form c = eval(s.cond());
    set(s.lhs(), sx::ite(c, eval(s.left()), eval(s.right())));
  }
  void visit(assert_t &s) override {
    form c = eval(s.constraint());
    asserts_seen.push_back({(const void *)&s, c});
    trace.push_back({"assert", "", c, cur_stmt, labels_log.size() - 1});
    require_assert(c, (const void *)&s);
  }
  void visit(int_cast_t &s) override { throw sxe::no_verdict{"interp: int_cast not modelled"}; }
  void visit(unreach_t &) override { throw stop_execution(); }
  void visit(havoc_t &s) override { set(s.get_variable(), fresh_for(s.get_variable())); }
  term fresh_for(const var_t &v) {
    if (havoc_src && hpos < havoc_src->size()) return (*havoc_src)[hpos++];
    term t = sx::fresh(("havoc." + v.name().str()).c_str());
    if (v.get_type().is_bool()) sx::assume(t >= term(0) && t <= term(1));
    havoc_log.push_back(t);
    return t;
  }
  void maybe_perturb(const label_t &l, bool at_exit, unsigned visit) {
    if (!pert_on || pert_done || !(l == pert_label) || at_exit != pert_at_exit || visit != pert_visit) return;
    pert_done = true;
    auto it = env.find(pert_var);
    term t = sx::fresh("perturbed");
    if (it != env.end()) it->second = t;
    else env.insert({pert_var, t});
  }
  std::function<void(machine &, callsite_t &)> call_handler; // inter-procedural harnesses execute the callee
  void visit(callsite_t &s) override { // intra-procedural semantics: outputs are arbitrary
    if (call_handler) {
      call_handler(*this, s);
      return;
    }
    for (auto const &v : s.get_lhs()) set(v, fresh_for(v));
  }
  void visit(intrinsic_t &s) override {
    for (auto const &v : s.get_lhs()) set(v, fresh_for(v));
  }
  void visit(bool_assign_cst_t &s) override {
    if (!s.is_rhs_linear_constraint()) throw sxe::no_verdict{"interp: reference constraint"};
    set(s.lhs(), sx::ite(eval(s.rhs_as_linear_constraint()), term(1), term(0)));
  }
  void visit(bool_assign_var_t &s) override {
    term r = get(s.rhs());
    set(s.lhs(), s.is_rhs_negated() ? term(1) - r : r);
  }
  void visit(bool_bin_op_t &s) override {
    form a = get(s.left()) == term(1), b = get(s.right()) == term(1);
    using namespace crab::cfg;
    form r = s.op() == BINOP_BAND ? (a && b) : s.op() == BINOP_BOR ? (a || b) : !sx::iff(a, b);
    set(s.lhs(), sx::ite(r, term(1), term(0)));
  }
  void visit(bool_assume_t &s) override {
    form c = s.is_negated() ? get(s.cond()) == term(0) : get(s.cond()) == term(1);
    trace.push_back({"assume", "", c, cur_stmt, labels_log.size() - 1});
    require(c);
  }
  void visit(bool_select_t &s) override {
    set(s.lhs(), sx::ite(get(s.cond()) == term(1), get(s.left()), get(s.right())));
  }
  void visit(bool_assert_t &s) override {
    form c = get(s.cond()) == term(1);
    asserts_seen.push_back({(const void *)&s, c});
    trace.push_back({"assert", "", c, cur_stmt, labels_log.size() - 1});
    require_assert(c, (const void *)&s);
  }

  std::set<label_t> exit_reach;
  bool exit_reach_done = false;
  bool reaches_exit(CFG cfg, const label_t &l) {
    if (!exit_reach_done) {
      exit_reach_done = true;
      if (cfg.has_exit()) {
        std::vector<label_t> wl{cfg.exit()};
        exit_reach.insert(cfg.exit());
        while (!wl.empty()) {
          label_t n = wl.back();
          wl.pop_back();
          for (auto const &p : cfg.prev_nodes(n))
            if (exit_reach.insert(p).second) wl.push_back(p);
        }
      }
    }
    return exit_reach.count(l) > 0;
  }
  // run from block `start`; on_block(label, at_entry, *this) is called at every block entry/exit
  // reached by the execution.  Returns the label where the execution stopped.
  template <class F> label_t run(CFG cfg, label_t start, unsigned max_blocks, F on_block, bool *completed = nullptr) {
    label_t cur = start;
    if (completed) *completed = false;
    std::map<label_t, unsigned> visits;
    if (guided && follow) { // the recorded execution starts at the same block
      if (follow->empty() || !((*follow)[0] == start)) { lost = true; return cur; }
      fpos = 1;
    }
    for (unsigned n = 0; n < max_blocks; n++) {
      auto &bb = cfg.get_node(cur);
      labels_log.push_back(cur);
      unsigned vis = ++visits[cur];
      maybe_perturb(cur, false, vis);
      on_block(cur, true, *this);
      try {
        for (auto &s : bb) {
          cur_stmt = &s;
          s.accept(this);
        }
      } catch (stop_execution &) {
        return cur;
      }
      maybe_perturb(cur, true, vis);
      on_block(cur, false, *this);
      std::vector<label_t> succ;
      for (auto it = bb.next_blocks().first; it != bb.next_blocks().second; ++it) succ.push_back(*it);
      if (succ.empty()) {
        if (completed) *completed = true;
        return cur;
      }
      if (guided && follow) {
        // follow the recorded block sequence; labels of the recording that do not exist here (merged or
        // removed blocks) are skipped; extra blocks here are taken when they lead to the next recorded label
        bool found = false;
        while (fpos < follow->size() && !found) {
          const label_t &want = (*follow)[fpos];
          for (auto &sx_ : succ)
            if (sx_ == want) { cur = sx_; found = true; }
          if (!found) {
            // a successor of ours that is not part of the recording but leads (through single-successor
            // blocks) to the wanted label
            for (auto &s0 : succ) {
              if (found) break;
              label_t c = s0;
              for (int hop = 0; hop < 8; hop++) {
                auto &nb = cfg.get_node(c);
                std::vector<label_t> ns;
                for (auto it = nb.next_blocks().first; it != nb.next_blocks().second; ++it) ns.push_back(*it);
                bool hit = false;
                for (auto &x : ns) hit = hit || x == want;
                if (hit) { cur = s0; found = true; break; }
                if (ns.size() != 1) break;
                c = ns[0];
              }
            }
            if (found) break; // we moved to an intermediate block; `want` stays pending
            fpos++;           // the recorded label does not exist here: skip it
          } else
            fpos++;
        }
        if (!found) {
          if (fpos >= follow->size()) {
            // the recording ends here (its remaining blocks were merged away): keep going while the way to the
            // exit is unambiguous
            std::vector<label_t> cand;
            for (auto &s0 : succ)
              if (reaches_exit(cfg, s0)) cand.push_back(s0);
            if (cand.size() == 1) {
              cur = cand[0];
              continue;
            }
            return cur;
          }
          lost = true;
          return cur;
        }
        continue;
      }
      if (succ.size() == 1) cur = succ[0];
      else {
        term ch = sx::fresh("goto");
        sx::assume(ch >= term(0) && ch < term((long)succ.size()));
        cur = succ[sx::concretise(ch)];
      }
    }
    return cur;
  }
};
} // namespace interp
