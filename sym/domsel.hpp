// domsel.hpp — the abstract domain under test, selected at compile time with -DDOM=<n>
#pragma once
#include "hx.hpp"
#include <crab/types/varname_factory.hpp>
#include <crab/types/variable.hpp>
#include <crab/types/linear_constraints.hpp>
#include <crab/domains/abstract_domain_params.hpp>
#include <crab/domains/intervals.hpp>
#if DOM == 2 || DOM == 3 || DOM == 17 || DOM == 24
#include <crab/domains/split_dbm.hpp>
#endif
#if DOM == 4
#include <crab/domains/sparse_dbm.hpp>
#endif
#if DOM == 5 || DOM == 15
#include <crab/domains/split_oct.hpp>
#endif
#if DOM == 6
#include <crab/domains/constant_domain.hpp>
#endif
#if DOM == 7
#include <crab/domains/sign_domain.hpp>
#endif
#if DOM == 8
#include <crab/domains/sign_constant_domain.hpp>
#endif
#if DOM == 9
#include <crab/domains/combined_congruences.hpp>
#endif
#if DOM == 10
#include <crab/domains/dis_intervals.hpp>
#endif
#if DOM == 11
#include <crab/domains/flat_boolean_domain.hpp>
#endif
#if DOM == 12
#include <crab/domains/combined_domains.hpp>
#include <crab/domains/split_dbm.hpp>
#endif
#if DOM == 13
#include <crab/domains/powerset_domain.hpp>
#endif
#if DOM == 14
#include <crab/domains/value_partitioning_domain.hpp>
#endif
#if DOM == 15
#include <crab/domains/lookahead_widening_domain.hpp>
#endif
#if DOM == 16
#include <crab/domains/numerical_packing.hpp>
#endif
#if DOM == 17
#include <crab/domains/fixed_tvpi_domain.hpp>
#endif
#if DOM == 18
#include <crab/domains/term_equiv.hpp>
#endif
#if DOM == 19
#include <crab/domains/uf_domain.hpp>
#endif
#if DOM == 20 || DOM == 26
#include <crab/domains/array_smashing.hpp>
#include <crab/domains/split_dbm.hpp>
#endif
#if DOM == 21 || DOM == 27
#include <crab/domains/array_adaptive.hpp>
#include <crab/domains/split_dbm.hpp>
#endif
#if DOM == 22 || DOM == 23
#include <crab/domains/generic_abstract_domain.hpp>
#include <crab/domains/split_dbm.hpp>
#endif
#if DOM == 25
#include <crab/domains/congruences.hpp>
#endif
#if DOM == 28 || DOM == 29
#include <crab/domains/split_dbm.hpp>
#include <crab/domains/region_domain.hpp>
#endif

namespace crab {
template <> class variable_name_traits<std::string> {
public:
  static std::string to_string(std::string varname) { return varname; }
};
} // namespace crab

namespace ds {
using namespace crab::domains;
typedef ikos::z_number znum;
typedef crab::var_factory_impl::str_variable_factory vfac_t;
typedef vfac_t::varname_t varname_t;
typedef crab::variable<znum, varname_t> var_t;
typedef ikos::linear_expression<znum, varname_t> lexp_t;
typedef ikos::linear_constraint<znum, varname_t> lcst_t;
typedef ikos::linear_constraint_system<znum, varname_t> lcsts_t;
typedef ikos::interval<znum> itv_t;

typedef ikos::interval_domain<znum, varname_t> itv_dom_t;
#if DOM == 1
typedef itv_dom_t dom_t;
#define DOM_NAME "interval_domain<z_number>"
#elif DOM == 2
typedef split_dbm_domain<znum, varname_t, DBM_impl::BigNumDefaultParams<znum, DBM_impl::GraphRep::ss>> dom_t;
#define DOM_NAME "split_dbm_domain<z_number, BigNumDefaultParams<ss>> (zones, unbounded weights)"
#elif DOM == 3
typedef split_dbm_domain<znum, varname_t, DBM_impl::DefaultParams<znum, DBM_impl::GraphRep::adapt_ss>> dom_t;
#define DOM_NAME "split_dbm_domain<z_number, DefaultParams<adapt_ss>> (zones, int64 weights)"
#elif DOM == 4
typedef sparse_dbm_domain<znum, varname_t, DBM_impl::BigNumDefaultParams<znum, DBM_impl::GraphRep::ss>> dom_t;
#define DOM_NAME "sparse_dbm_domain<z_number, BigNumDefaultParams<ss>>"
#elif DOM == 5
typedef split_oct_domain<znum, varname_t, DBM_impl::DefaultParams<znum, DBM_impl::GraphRep::adapt_ss>> dom_t;
#define DOM_NAME "split_oct_domain<z_number, DefaultParams<adapt_ss>> (octagons, int64 weights)"
#elif DOM == 6
typedef constant_domain<znum, varname_t> dom_t;
#define DOM_NAME "constant_domain<z_number>"
#elif DOM == 7
typedef sign_domain<znum, varname_t> dom_t;
#define DOM_NAME "sign_domain<z_number>"
#elif DOM == 8
typedef sign_constant_domain<znum, varname_t> dom_t;
#define DOM_NAME "sign_constant_domain<z_number>"
#elif DOM == 9
typedef numerical_congruence_domain<itv_dom_t> dom_t;
#define DOM_NAME "numerical_congruence_domain<interval_domain> (reduced product intervals x congruences)"
#elif DOM == 10
typedef dis_interval_domain<znum, varname_t> dom_t;
#define DOM_NAME "dis_interval_domain<z_number>"
#elif DOM == 11
typedef flat_boolean_numerical_domain<itv_dom_t> dom_t;
#define DOM_NAME "flat_boolean_numerical_domain<interval_domain>"
#elif DOM == 12
typedef reduced_numerical_domain_product2<itv_dom_t, split_dbm_domain<znum, varname_t, DBM_impl::BigNumDefaultParams<znum, DBM_impl::GraphRep::ss>>> dom_t;
#define DOM_NAME "reduced_numerical_domain_product2<interval_domain, split_dbm>"
#elif DOM == 13
typedef powerset_domain<itv_dom_t> dom_t;
#define DOM_NAME "powerset_domain<interval_domain>"
#elif DOM == 14
typedef product_value_partitioning_domain<itv_dom_t> dom_t;
#define DOM_NAME "product_value_partitioning_domain<interval_domain>"
#elif DOM == 15
typedef lookahead_widening_domain<split_oct_domain<znum, varname_t, DBM_impl::DefaultParams<znum, DBM_impl::GraphRep::adapt_ss>>> dom_t;
#define DOM_NAME "lookahead_widening_domain<split_oct>"
#elif DOM == 16
typedef numerical_packing_domain<itv_dom_t> dom_t;
#define DOM_NAME "numerical_packing_domain<interval_domain>"
#elif DOM == 17
typedef fixed_tvpi_domain<split_dbm_domain<znum, varname_t, DBM_impl::BigNumDefaultParams<znum, DBM_impl::GraphRep::ss>>> dom_t;
#define DOM_NAME "fixed_tvpi_domain<split_dbm>"
#elif DOM == 18
typedef term_domain<term::TDomInfo<znum, varname_t, itv_dom_t>> dom_t;
#define DOM_NAME "term_domain<interval_domain>"
#elif DOM == 19
typedef uf_domain<znum, varname_t> dom_t;
#define DOM_NAME "uf_domain"
#elif DOM == 20
typedef array_smashing<itv_dom_t> dom_t;
#define DOM_NAME "array_smashing<interval_domain>"
#elif DOM == 21
typedef array_adaptive_domain<itv_dom_t> dom_t;
#define DOM_NAME "array_adaptive_domain<interval_domain>"
#elif DOM == 22
typedef abstract_domain_ref<var_t> dom_t;
typedef itv_dom_t wrapped_t;
#define DOM_WRAPPED 1
#define DOM_NAME "abstract_domain_ref (generic wrapper) over interval_domain"
#elif DOM == 23
typedef abstract_domain_ref<var_t> dom_t;
typedef split_dbm_domain<znum, varname_t, DBM_impl::BigNumDefaultParams<znum, DBM_impl::GraphRep::ss>> wrapped_t;
#define DOM_WRAPPED 1
#define DOM_NAME "abstract_domain_ref (generic wrapper) over split_dbm"
#elif DOM == 24
typedef split_dbm_domain<znum, varname_t, DBM_impl::SafeInt64DefaultParams<znum, DBM_impl::GraphRep::adapt_ss>> dom_t;
#define DOM_NAME "split_dbm_domain<z_number, SafeInt64DefaultParams<adapt_ss>> (zones, checked int64 weights)"
#elif DOM == 26
typedef array_smashing<split_dbm_domain<znum, varname_t, DBM_impl::BigNumDefaultParams<znum, DBM_impl::GraphRep::ss>>> dom_t;
#define DOM_NAME "array_smashing<split_dbm>"
#elif DOM == 27
typedef array_adaptive_domain<split_dbm_domain<znum, varname_t, DBM_impl::BigNumDefaultParams<znum, DBM_impl::GraphRep::ss>>> dom_t;
#define DOM_NAME "array_adaptive_domain<split_dbm>"
#elif DOM == 28 || DOM == 29
struct rgn_params_t {
  using number_t = znum;
  using varname_t = ds::varname_t;
  using varname_allocator_t = crab::var_factory_impl::str_var_alloc_col;
  using base_varname_t = varname_allocator_t::varname_t;
#if DOM == 28
  using base_abstract_domain_t = ikos::interval_domain<znum, base_varname_t>;
#else
  using base_abstract_domain_t = split_dbm_domain<znum, base_varname_t, DBM_impl::BigNumDefaultParams<znum, DBM_impl::GraphRep::ss>>;
#endif
};
typedef region_domain<rgn_params_t> dom_t;
#if DOM == 28
#define DOM_NAME "region_domain<interval_domain>"
#else
#define DOM_NAME "region_domain<split_dbm>"
#endif
#elif DOM == 25
typedef ikos::congruence_domain<znum, varname_t> dom_t;
#define DOM_NAME "congruence_domain<z_number>"
#else
#error "unknown DOM"
#endif

// base numerical domain of a lifting (C12: the lifting never reports looser bounds than its base)
#if DOM == 9 || DOM == 11 || DOM == 13 || DOM == 14 || DOM == 16 || DOM == 18 || DOM == 20 || DOM == 21 || DOM == 12
typedef itv_dom_t base_t;
#define DOM_HAS_BASE 1
#elif DOM == 17
typedef split_dbm_domain<znum, varname_t, DBM_impl::BigNumDefaultParams<znum, DBM_impl::GraphRep::ss>> base_t;
#define DOM_HAS_BASE 1
#endif

inline dom_t make_top() {
#ifdef DOM_WRAPPED
  wrapped_t w;
  return dom_t(w);
#else
  dom_t d;
  return d;
#endif
}
} // namespace ds
