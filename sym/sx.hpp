// sx.hpp — harness API of engine E2, identical in two build modes:
//   SX_SYM : symbolic build (shadow bignums.hpp first on the include path): terms are z3
//            expressions, decide() forks, check() asks z3 whether pc ∧ ¬formula is unsat,
//            run() explores all decision sequences exhaustively.
//   (else) : concrete replay build (real z_number, real GMP): fresh() reads the value from
//            a model file, decide()/check() evaluate concretely, one run.
// A harness is written once against this API; a solver model found in the symbolic build is
// replayed on the concrete build before anything is reported.
#pragma once
#include <crab/support/debug.hpp>
#include <crab/numbers/bignums.hpp>
#include <chrono>
#include <cstdio>
#include <cstring>
#include <fstream>
#include <functional>
#include <map>
#include <sstream>
#include <string>
#include <vector>

#ifndef SX_SYM
namespace sxe {
struct abort_path { const char *why; };
struct skip_path {};
struct no_verdict { const char *why; };
} // namespace sxe
#endif

// CRAB_ERROR ends the path instead of exiting the process (both modes)
#undef CRAB_ERROR
#define SX_STR2(x) #x
#define SX_STR(x) SX_STR2(x)
#define CRAB_ERROR(...) throw sxe::abort_path{"CRAB_ERROR at " __FILE__ ":" SX_STR(__LINE__)}

namespace sx {
typedef ikos::z_number znum;

#ifdef SX_SYM
// ------------------------------------------------------------------ symbolic mode
inline sxe::engine &E() { return sxe::engine::get(); }
inline z3::context &C() { return E().c; }
class form {
public:
  z3::expr e;
  form(bool b) : e(C().bool_val(b)) {}
  form(const z3::expr &x) : e(x) {}
  form operator&&(const form &o) const { return form(e && o.e); }
  form operator||(const form &o) const { return form(e || o.e); }
  form operator!() const { return form(!e); }
};
inline form implies(const form &a, const form &b) { return form(z3::implies(a.e, b.e)); }
inline form iff(const form &a, const form &b) { return form(a.e == b.e); }
class term {
public:
  z3::expr e;
  term(long k) : e(C().int_val((int64_t)k)) {}
  term(int k) : e(C().int_val((int64_t)k)) {}
  term(const z3::expr &x) : e(x) {}
  term(const znum &z) : e(z.e) { E().obs.push_back(z.e); } // crab-computed value: logged
  znum num() const { return znum(e); }
  term operator+(const term &o) const { return term(e + o.e); }
  term operator-(const term &o) const { return term(e - o.e); }
  term operator*(const term &o) const { return term(e * o.e); }
  term operator-() const { return term(-e); }
  form operator<=(const term &o) const { return form(e <= o.e); }
  form operator<(const term &o) const { return form(e < o.e); }
  form operator>=(const term &o) const { return form(e >= o.e); }
  form operator>(const term &o) const { return form(e > o.e); }
  form operator==(const term &o) const { return form(e == o.e); }
  form operator!=(const term &o) const { return form(e != o.e); }
};
inline term ite(const form &c, const term &a, const term &b) { return term(z3::ite(c.e, a.e, b.e)); }
inline form fite(const form &c, const form &a, const form &b) { return form(z3::ite(c.e, a.e, b.e)); }
inline term tdiv(const term &a, const term &b) { return term(znum::tdiv(a.e, b.e)); }
inline term trem(const term &a, const term &b) { return term(a.e - znum::tdiv(a.e, b.e) * b.e); }
inline term fdiv(const term &a, const term &b) { // floor division, b > 0
  return term(a.e / b.e);
}
inline term fmod(const term &a, const term &b) { return term(z3::mod(a.e, b.e)); } // b > 0: in [0,b)
// two's complement bitwise reference on [-2^(bits-1), 2^(bits-1)) (independent of the shadow class)
inline term bitop(int op, const term &a, const term &b, int bits) {
  z3::context &c = C();
  z3::expr M = c.int_val((int64_t)(1LL << bits)), H = c.int_val((int64_t)(1LL << (bits - 1)));
  z3::expr ua = z3::int2bv(bits, z3::ite(a.e >= 0, a.e, a.e + M)), ub = z3::int2bv(bits, z3::ite(b.e >= 0, b.e, b.e + M));
  z3::expr r = op == 0 ? (ua & ub) : op == 1 ? (ua | ub) : (ua ^ ub);
  z3::expr ri = z3::bv2int(r, false);
  return term(z3::ite(ri >= H, ri - M, ri));
}
inline term fresh(const char *tag) { return term(E().fresh_int(tag)); }
inline form fresh_bool(const char *tag) { return form(E().fresh_bool(tag)); }
inline void assume(const form &f) { E().assume(f.e); }
inline bool decide(const form &f) { return E().decide(f.e); }
inline long concretise(const term &t, unsigned limit = 64) { return (long)E().concretise(t.e, limit); }
inline bool is_sym() { return true; }
#else
// ------------------------------------------------------------------ concrete replay mode
struct cstate {
  std::map<std::string, std::string> model;
  unsigned long nfresh = 0;
  std::vector<std::string> obs, trace, failed;
  static cstate &get() {
    static cstate s;
    return s;
  }
};
class form {
public:
  bool e;
  form(bool b) : e(b) {}
  form operator&&(const form &o) const { return form(e && o.e); }
  form operator||(const form &o) const { return form(e || o.e); }
  form operator!() const { return form(!e); }
};
inline form implies(const form &a, const form &b) { return form(!a.e || b.e); }
inline form iff(const form &a, const form &b) { return form(a.e == b.e); }
class term {
public:
  znum e;
  term(long k) : e((int64_t)k) {}
  term(int k) : e((int64_t)k) {}
  term(const znum &z, bool log = true) : e(z) {
    if (log) cstate::get().obs.push_back(z.get_str());
  }
  znum num() const { return e; }
  term operator+(const term &o) const { return term(e + o.e, false); }
  term operator-(const term &o) const { return term(e - o.e, false); }
  term operator*(const term &o) const { return term(e * o.e, false); }
  term operator-() const { return term(-e, false); }
  form operator<=(const term &o) const { return form(e <= o.e); }
  form operator<(const term &o) const { return form(e < o.e); }
  form operator>=(const term &o) const { return form(e >= o.e); }
  form operator>(const term &o) const { return form(e > o.e); }
  form operator==(const term &o) const { return form(e == o.e); }
  form operator!=(const term &o) const { return form(e != o.e); }
};
inline term ite(const form &c, const term &a, const term &b) { return c.e ? a : b; }
inline form fite(const form &c, const form &a, const form &b) { return c.e ? a : b; }
inline term tdiv(const term &a, const term &b) { return term(b.e == znum(0) ? znum(0) : a.e / b.e, false); }
inline term trem(const term &a, const term &b) { return term(b.e == znum(0) ? a.e : a.e % b.e, false); }
inline term fdiv(const term &a, const term &b) {
  znum q = a.e / b.e, r = a.e % b.e;
  if (r < znum(0)) q = q - znum(1);
  return term(q, false);
}
inline term fmod(const term &a, const term &b) {
  znum r = a.e % b.e;
  if (r < znum(0)) r = r + b.e;
  return term(r, false);
}
inline term bitop(int op, const term &a, const term &b, int) {
  return term(op == 0 ? (a.e & b.e) : op == 1 ? (a.e | b.e) : (a.e ^ b.e), false);
}
inline term fresh(const char *tag) {
  cstate &S = cstate::get();
  std::string nm = std::string(tag) + "#" + std::to_string(S.nfresh++);
  auto it = S.model.find(nm);
  return term(it == S.model.end() ? znum(0) : znum(it->second), false);
}
inline form fresh_bool(const char *tag) {
  cstate &S = cstate::get();
  std::string nm = std::string(tag) + "#" + std::to_string(S.nfresh++);
  auto it = S.model.find(nm);
  return form(it != S.model.end() && it->second == "true");
}
inline void assume(const form &f) {
  if (!f.e) throw sxe::abort_path{"assume-false-in-replay"};
}
inline bool decide(const form &f) { return f.e; }
inline long concretise(const term &t, unsigned = 64) { return (long)(int64_t)t.e; }
inline bool is_sym() { return false; }
#endif

// ------------------------------------------------------------------ common driver
struct options {
  double budget_s = 1e9;
  unsigned long max_paths = ~0UL;
  std::string replay;                       // concrete mode: model file
  std::map<std::string, std::string> kv;    // harness parameters  key=value
  std::vector<std::string> known;           // active known-finding exclusions
  int witness_samples = 3;
  int max_violations = 5;
  std::string smtdump;                      // directory for SMT-LIB dumps of decided queries (second-solver cross-check)
  int smtdump_n = 0, smtdump_done = 0;
  unsigned long smtdump_seen = 0;
  std::string get(const std::string &k, const std::string &d = "") const {
    auto it = kv.find(k);
    return it == kv.end() ? d : it->second;
  }
  long geti(const std::string &k, long d) const {
    auto it = kv.find(k);
    return it == kv.end() ? d : atol(it->second.c_str());
  }
};
inline options &opts() {
  static options o;
  return o;
}
inline bool known(const char *id) {
  for (auto &k : opts().known)
    if (k == id) return true;
  return false;
}

inline std::string jesc(const std::string &s) {
  std::string r;
  for (char ch : s) {
    if (ch == '"' || ch == '\\') {
      r += '\\';
      r += ch;
    } else if (ch == '\n')
      r += "\\n";
    else if ((unsigned char)ch < 0x20)
      r += ' ';
    else
      r += ch;
  }
  return r;
}

struct violation {
  std::string label;
  std::string status; // sat | unknown
  std::vector<std::pair<std::string, std::string>> model;
  std::vector<std::string> trace;
};
struct witness {
  std::vector<std::pair<std::string, std::string>> model;
  std::vector<std::string> obs, trace;
};
struct results {
  unsigned long paths = 0, completed = 0, aborted = 0, skipped = 0, checks = 0, checks_unsat = 0;
  std::map<std::string, unsigned long> abort_reasons, check_labels;
  std::vector<violation> violations;
  unsigned long nviol = 0;
  std::vector<witness> witnesses;
  bool exhaustive = false;
  std::string no_verdict;
};
inline results &R() {
  static results r;
  return r;
}

#ifdef SX_SYM
inline std::vector<std::pair<std::string, std::string>> model_of(z3::model &m) {
  std::vector<std::pair<std::string, std::string>> out;
  for (auto &in : E().inputs) {
    z3::expr v = m.eval(in.second, true);
    out.push_back({in.first, v.is_bool() ? (v.is_true() ? "true" : "false") : v.get_decimal_string(0)});
  }
  return out;
}
inline void check(const form &f, const char *label) {
  sxe::engine &e = E();
  R().checks++;
  R().check_labels[label]++;
  e.trace.push_back(label);
  z3::expr g = f.e.simplify();
  if (g.is_true()) {
    R().checks_unsat++;
    return;
  }
  e.s.push();
  e.s.add(!g);
  z3::check_result r = e.timed_check();
  if (r == z3::unsat) {
    R().checks_unsat++;
    // sample of the discharged queries for a second solver: the 1st, 2nd, 4th, 8th, ... non-trivial one
    options &o = opts();
    if (o.smtdump_n > 0 && o.smtdump_done < o.smtdump_n) {
      o.smtdump_seen++;
      if ((o.smtdump_seen & (o.smtdump_seen - 1)) == 0) {
        std::string fn = o.smtdump + "/q" + std::to_string(o.smtdump_done++) + ".smt2";
        if (FILE *fp = fopen(fn.c_str(), "w")) {
          fprintf(fp, "; check '%s' decided unsat by z3\n(set-logic ALL)\n%s\n(check-sat)\n", label, e.s.to_smt2().c_str());
          fclose(fp);
        }
      }
    }
  } else {
    R().nviol++;
    if ((int)R().violations.size() < opts().max_violations) {
      violation v;
      v.label = label;
      v.status = r == z3::sat ? "sat" : "unknown";
      if (r == z3::sat) {
        z3::model m = e.s.get_model();
        v.model = model_of(m);
      }
      v.trace = e.trace;
      R().violations.push_back(v);
    }
  }
  e.s.pop();
}
#else
inline void check(const form &f, const char *label) {
  cstate &S = cstate::get();
  R().checks++;
  S.trace.push_back(label);
  if (f.e)
    R().checks_unsat++;
  else {
    R().nviol++;
    S.failed.push_back(label);
  }
}
#endif
// a crab-computed Boolean the harness looks at (logged for the witness comparison)
inline bool B(bool b) {
#ifdef SX_SYM
  E().obs.push_back(C().int_val(b ? 1 : 0));
#else
  cstate::get().obs.push_back(b ? "1" : "0");
#endif
  return b;
}

inline void print_json() {
  results &r = R();
  std::ostringstream o;
  o << "{\"mode\":\"" << (is_sym() ? "sym" : "conc") << "\",\"exhaustive\":" << (r.exhaustive ? "true" : "false")
    << ",\"no_verdict\":\"" << jesc(r.no_verdict) << "\",\"paths\":" << r.paths << ",\"completed\":" << r.completed
    << ",\"aborted\":" << r.aborted << ",\"skipped\":" << r.skipped << ",\"checks\":" << r.checks
    << ",\"checks_unsat\":" << r.checks_unsat << ",\"nviol\":" << r.nviol;
#ifdef SX_SYM
  o << ",\"branches\":" << E().branches << ",\"solver_calls\":" << E().solver_calls << ",\"solver_s\":" << E().solver_s
    << ",\"concretisations\":" << E().concretisations << ",\"unknowns\":" << E().unknowns;
#endif
  o << ",\"abort_reasons\":{";
  bool first = true;
  for (auto &kv : r.abort_reasons) {
    o << (first ? "" : ",") << "\"" << jesc(kv.first) << "\":" << kv.second;
    first = false;
  }
  o << "},\"check_labels\":{";
  first = true;
  for (auto &kv : r.check_labels) {
    o << (first ? "" : ",") << "\"" << jesc(kv.first) << "\":" << kv.second;
    first = false;
  }
  o << "},\"violations\":[";
  for (size_t i = 0; i < r.violations.size(); i++) {
    auto &v = r.violations[i];
    o << (i ? "," : "") << "{\"label\":\"" << jesc(v.label) << "\",\"status\":\"" << v.status << "\",\"model\":{";
    for (size_t j = 0; j < v.model.size(); j++) o << (j ? "," : "") << "\"" << jesc(v.model[j].first) << "\":\"" << v.model[j].second << "\"";
    o << "},\"trace_len\":" << v.trace.size() << "}";
  }
  o << "],\"witnesses\":[";
  for (size_t i = 0; i < r.witnesses.size(); i++) {
    auto &w = r.witnesses[i];
    o << (i ? "," : "") << "{\"model\":{";
    for (size_t j = 0; j < w.model.size(); j++) o << (j ? "," : "") << "\"" << jesc(w.model[j].first) << "\":\"" << w.model[j].second << "\"";
    o << "},\"obs\":[";
    for (size_t j = 0; j < w.obs.size(); j++) o << (j ? "," : "") << "\"" << jesc(w.obs[j]) << "\"";
    o << "],\"trace\":[";
    for (size_t j = 0; j < w.trace.size(); j++) o << (j ? "," : "") << "\"" << jesc(w.trace[j]) << "\"";
    o << "]}";
  }
  o << "]";
#ifndef SX_SYM
  o << ",\"failed\":[";
  for (size_t j = 0; j < cstate::get().failed.size(); j++) o << (j ? "," : "") << "\"" << jesc(cstate::get().failed[j]) << "\"";
  o << "]";
#endif
  o << "}";
  printf("SXRESULT %s\n", o.str().c_str());
  fflush(stdout);
}

inline void parse_args(int argc, char **argv) {
  options &o = opts();
  for (int i = 1; i < argc; i++) {
    std::string a = argv[i];
    if (a == "--budget" && i + 1 < argc) o.budget_s = atof(argv[++i]);
    else if (a == "--max-paths" && i + 1 < argc) o.max_paths = strtoul(argv[++i], 0, 10);
    else if (a == "--replay" && i + 1 < argc) o.replay = argv[++i];
    else if (a == "--known" && i + 1 < argc) o.known.push_back(argv[++i]);
    else if (a == "--witnesses" && i + 1 < argc) o.witness_samples = atoi(argv[++i]);
    else if (a == "--smtdump" && i + 2 < argc) {
      o.smtdump = argv[++i];
      o.smtdump_n = atoi(argv[++i]);
    }
#ifdef SX_SYM
    else if (a == "--shard" && i + 1 < argc) {
      int k = 0, n = 1, d = 0;
      sscanf(argv[++i], "%d/%d/%d", &k, &n, &d);
      E().shard_k = k; E().shard_n = n; E().shard_depth = d;
    } else if (a == "--no-hash") E().check_hash = false;
#else
    else if (a == "--shard" && i + 1 < argc) ++i;
    else if (a == "--no-hash") {}
#endif
    else {
      size_t eq = a.find('=');
      if (eq != std::string::npos) o.kv[a.substr(0, eq)] = a.substr(eq + 1);
    }
  }
}

// run a harness: exhaustive exploration (SX_SYM) or one concrete replay
inline int run(int argc, char **argv, std::function<void()> harness) {
  parse_args(argc, argv);
  results &r = R();
#ifdef SX_SYM
  sxe::engine &e = E();
  auto t0 = std::chrono::steady_clock::now();
  e.work.clear();
  e.work.push_back({});
  r.exhaustive = true;
  unsigned long wstride = 1;
  try {
    while (!e.work.empty()) {
      std::vector<sxe::dec> d = e.work.back();
      e.work.pop_back();
      e.reset(d);
      bool done = false;
      try {
        harness();
        done = true;
      } catch (sxe::abort_path &a) {
        if (e.owns_short_path()) {
          r.aborted++;
          r.abort_reasons[a.why]++;
        } else
          r.skipped++;
      } catch (sxe::skip_path &) {
        r.skipped++;
      }
      r.paths++;
      if (done) {
        if (e.pos < e.decisions.size()) throw sxe::no_verdict{"nondeterministic-replay(short)"};
        if (!e.owns_short_path())
          r.skipped++;
        else {
          r.completed++;
          // vacuity witness: the path condition of a completed path is satisfiable
          if ((int)r.witnesses.size() < opts().witness_samples && (r.completed % wstride) == 0) {
            z3::check_result cr = e.timed_check();
            if (cr != z3::sat) throw sxe::no_verdict{"completed-path-not-sat"};
            z3::model m = e.s.get_model();
            witness w;
            w.model = model_of(m);
            for (auto &x : e.obs) {
              z3::expr v = m.eval(x, true);
              w.obs.push_back(v.is_numeral() ? v.get_decimal_string(0) : "?");
            }
            w.trace = e.trace;
            r.witnesses.push_back(w);
            wstride *= 7;
          }
        }
      }
      double dt = std::chrono::duration<double>(std::chrono::steady_clock::now() - t0).count();
      if (dt > opts().budget_s || r.paths >= opts().max_paths) {
        if (!e.work.empty()) {
          r.exhaustive = false;
          r.no_verdict = "budget";
        }
        break;
      }
    }
  } catch (sxe::no_verdict &nv) {
    r.exhaustive = false;
    r.no_verdict = nv.why;
  } catch (z3::exception &ex) {
    r.exhaustive = false;
    r.no_verdict = std::string("z3-exception:") + ex.msg();
  }
  print_json();
  return r.exhaustive ? (r.nviol ? 1 : 0) : 3;
#else
  cstate &S = cstate::get();
  if (!opts().replay.empty()) {
    std::ifstream in(opts().replay);
    std::string k, v;
    while (in >> k >> v) S.model[k] = v;
  }
  r.paths = 1;
  try {
    harness();
    r.completed = 1;
  } catch (sxe::abort_path &a) {
    r.aborted = 1;
    r.abort_reasons[a.why]++;
  }
  r.exhaustive = true;
  witness w;
  w.obs = S.obs;
  w.trace = S.trace;
  r.witnesses.push_back(w);
  print_json();
  return r.nviol ? 1 : 0;
#endif
}
} // namespace sx
