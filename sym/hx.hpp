// hx.hpp — helpers shared by E2 harnesses that use crab's scalar abstractions
#pragma once
#include "sx.hpp"
#include <crab/domains/interval.hpp>
#include <boost/optional.hpp>

namespace hx {
using namespace sx;
typedef ikos::z_number znum;
typedef ikos::interval<znum> itv_t;
typedef ikos::bound<znum> bnd_t;

inline std::vector<std::string> split_csv(const std::string &s, char c = ',') {
  std::vector<std::string> r;
  std::string cur;
  if (s.empty()) return r;
  for (char ch : s) {
    if (ch == c) {
      r.push_back(cur);
      cur.clear();
    } else
      cur += ch;
  }
  r.push_back(cur);
  return r;
}
// x ∈ γ(i), written from the public observers of interval
inline form mem(const itv_t &i, const term &x) {
  if (B(i.is_bottom())) return form(false);
  form r(true);
  if (boost::optional<znum> l = i.lb().number()) r = r && (term(*l) <= x);
  if (boost::optional<znum> u = i.ub().number()) r = r && (x <= term(*u));
  return r;
}
// symbolic interval of a symbolic shape: 0 bottom, 1 top, 2 [l,u], 3 (-oo,u], 4 [l,+oo)
// (shape is forked by concretisation; l,u are unbounded unless the harness assumes ranges)
struct sitv {
  itv_t v;
  int shape;
  term l, u;
  sitv() : v(itv_t::top()), shape(1), l(0), u(0) {}
};
inline sitv fresh_itv(const char *tag, bool allow_bottom = true, long range = 0) {
  sitv r;
  term sh = fresh((std::string(tag) + ".shape").c_str());
  assume(sh >= term(allow_bottom ? 0 : 1) && sh <= term(4));
  r.shape = (int)concretise(sh);
  r.l = fresh((std::string(tag) + ".l").c_str());
  r.u = fresh((std::string(tag) + ".u").c_str());
  if (range > 0) assume(r.l >= term(-range) && r.l <= term(range) && r.u >= term(-range) && r.u <= term(range));
  switch (r.shape) {
  case 0: r.v = itv_t::bottom(); break;
  case 1: r.v = itv_t::top(); break;
  case 2: assume(r.l <= r.u); r.v = itv_t(bnd_t(r.l.num()), bnd_t(r.u.num())); break;
  case 3: r.v = itv_t(bnd_t::minus_infinity(), bnd_t(r.u.num())); break;
  default: r.v = itv_t(bnd_t(r.l.num()), bnd_t::plus_infinity()); break;
  }
  return r;
}
inline bool has_lb(const sitv &a) { return a.shape == 2 || a.shape == 4; }
inline bool has_ub(const sitv &a) { return a.shape == 2 || a.shape == 3; }
// member of a symbolic interval as a fresh symbol (path ends if the interval is empty)
inline term fresh_member(const sitv &a, const char *tag) {
  term x = fresh(tag);
  form f(a.shape != 0);
  if (has_lb(a)) f = f && (a.l <= x);
  if (has_ub(a)) f = f && (x <= a.u);
  assume(f);
  return x;
}
} // namespace hx
