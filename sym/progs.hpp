// progs.hpp — the program family of the program-level properties: small CrabIR skeletons whose
// constants are symbolic (chosen per job: sym=i,j,..) or concrete defaults.  Structure is concrete.
#pragma once
#include "domsel.hpp"
#include <crab/cfg/basic_block_traits.hpp>
#include <crab/cfg/cfg.hpp>

namespace pg {
using namespace ds;
typedef crab::cfg::cfg<std::string, varname_t, znum> cfg_t;
typedef crab::cfg::cfg_ref<cfg_t> cfg_ref_t;
typedef cfg_t::basic_block_t bb_t;
} // namespace pg
namespace crab {
template <> class basic_block_traits<pg::bb_t> {
public:
  static std::string to_string(const std::string &l) { return l; }
};
} // namespace crab

namespace pg {
struct program {
  vfac_t vf;
  std::unique_ptr<cfg_t> cfg;
  std::vector<var_t> vars;   // integer program variables (checked against at())
  std::vector<var_t> bvars;  // Boolean program variables
  std::vector<sx::term> consts;
  std::string entry;
  bool has_exit = false;
  std::set<int> symset;
  long range = 0;
  int nconst = 0;
  var_t iv(const char *n) {
    var_t v(vf[n], crab::INT_TYPE, 32);
    vars.push_back(v);
    return v;
  }
  var_t bv(const char *n) {
    var_t v(vf[n], crab::BOOL_TYPE, 1);
    bvars.push_back(v);
    return v;
  }
  // i-th constant of the program: symbolic if selected, else its default
  const std::vector<sx::term> *reuse = nullptr; // constants of a previous build of the same program
  std::vector<var_t> outputs;
  znum K(long dflt) {
    int i = nconst++;
    if (reuse) {
      consts.push_back((*reuse)[i]);
      return (*reuse)[i].num();
    }
    sx::term t(dflt);
    if (symset.count(i)) {
      t = sx::fresh(("K" + std::to_string(i)).c_str());
      if (range > 0) sx::assume(t >= sx::term(dflt - range) && t <= sx::term(dflt + range));
    }
    consts.push_back(t);
    return t.num();
  }
  // assertions carry a debug id so that checker verdicts can be matched with them
  std::map<const void *, int> assert_id;
  std::vector<crab::cfg::debug_info> assert_dbg;
  template <class BB> void asrt(BB &bb, const lcst_t &c) {
    int n = (int)assert_dbg.size();
    crab::cfg::debug_info di("prog", n + 1, 1, n + 1);
    assert_dbg.push_back(di);
    assert_id[(const void *)bb.assertion(c, di)] = n;
  }
  template <class BB> void basrt(BB &bb, const var_t &b) {
    int n = (int)assert_dbg.size();
    crab::cfg::debug_info di("prog", n + 1, 1, n + 1);
    assert_dbg.push_back(di);
    assert_id[(const void *)bb.bool_assert(b, di)] = n;
  }
  void mk(const char *entry_, const char *exit_ = nullptr) {
    entry = entry_;
    if (exit_) {
      cfg.reset(new cfg_t(entry_, exit_));
      has_exit = true;
    } else
      cfg.reset(new cfg_t(entry_));
  }
};
typedef lexp_t E;
inline lcst_t le(const E &a, const E &b) { return lcst_t(a - b, lcst_t::INEQUALITY); }
inline lcst_t lt(const E &a, const E &b) { return lcst_t(a - b, lcst_t::STRICT_INEQUALITY); }
inline lcst_t eq(const E &a, const E &b) { return lcst_t(a - b, lcst_t::EQUALITY); }
inline lcst_t ne(const E &a, const E &b) { return lcst_t(a - b, lcst_t::DISEQUATION); }

inline void build(program &P, const std::string &name) {
  if (name == "straight") { // straight-line arithmetic with an assertion
    var_t x = P.iv("x"), y = P.iv("y"), z = P.iv("z");
    P.mk("b0", "b1");
    auto &b0 = P.cfg->insert("b0");
    auto &b1 = P.cfg->insert("b1");
    b0 >> b1;
    b0.assume(le(E(x), E(P.K(5))));
    b0.assume(le(E(P.K(-2)), E(x)));
    b0.assign(y, E(znum(2), x) + E(P.K(1)));
    b0.sub(z, y, x);
    b1.mul(z, z, znum(3));
    P.asrt(b1, le(E(z), E(P.K(40))));
    b1.add(x, z, y);
  } else if (name == "diamond") {
    var_t x = P.iv("x"), y = P.iv("y");
    P.mk("e", "x");
    auto &e = P.cfg->insert("e");
    auto &t = P.cfg->insert("t");
    auto &f = P.cfg->insert("f");
    auto &m = P.cfg->insert("x");
    e >> t; e >> f; t >> m; f >> m;
    e.havoc(x);
    znum k = P.K(3);
    t.assume(le(E(x), E(k)));
    t.assign(y, E(x) + E(P.K(2)));
    f.assume(lt(E(k), E(x)));
    f.assign(y, E(P.K(7)));
    P.asrt(m, le(E(y), E(P.K(9))));
    m.sub(x, y, x);
  } else if (name == "loop") { // i := A; while (i < N) i += K;
    var_t i = P.iv("i");
    P.mk("entry", "exit");
    auto &entry = P.cfg->insert("entry");
    auto &head = P.cfg->insert("head");
    auto &body = P.cfg->insert("body");
    auto &ex = P.cfg->insert("exit");
    entry >> head; head >> body; body >> head; head >> ex;
    znum A = P.K(0), N = P.K(4), S = P.K(1);
    entry.assign(i, E(A));
    body.assume(lt(E(i), E(N)));
    body.add(i, i, S);
    ex.assume(le(E(N), E(i)));
    P.asrt(ex, le(E(i), E(N) + E(znum(3))));
  } else if (name == "loop2") { // two counters: x counts up, y follows (relational invariant x - y = c)
    var_t x = P.iv("x"), y = P.iv("y");
    P.mk("entry", "exit");
    auto &entry = P.cfg->insert("entry");
    auto &head = P.cfg->insert("head");
    auto &body = P.cfg->insert("body");
    auto &ex = P.cfg->insert("exit");
    entry >> head; head >> body; body >> head; head >> ex;
    entry.assign(x, E(P.K(0)));
    entry.assign(y, E(x) + E(P.K(2)));
    body.assume(le(E(x), E(P.K(5))));
    body.add(x, x, znum(1));
    body.add(y, y, znum(1));
    ex.assume(lt(E(P.consts[2].num()), E(x)));
    P.asrt(ex, le(E(x), E(y)));
  } else if (name == "nested") {
    var_t i = P.iv("i"), j = P.iv("j");
    P.mk("entry", "exit");
    auto &entry = P.cfg->insert("entry");
    auto &oh = P.cfg->insert("oh");
    auto &ob = P.cfg->insert("ob");
    auto &ih = P.cfg->insert("ih");
    auto &ib = P.cfg->insert("ib");
    auto &oe = P.cfg->insert("oe");
    auto &ex = P.cfg->insert("exit");
    entry >> oh; oh >> ob; ob >> ih; ih >> ib; ib >> ih; ih >> oe; oe >> oh; oh >> ex;
    znum N = P.K(2), M = P.K(2);
    entry.assign(i, E(P.K(0)));
    ob.assume(lt(E(i), E(N)));
    ob.assign(j, E(znum(0)));
    ib.assume(lt(E(j), E(M)));
    ib.add(j, j, znum(1));
    oe.assume(le(E(M), E(j)));
    oe.add(i, i, znum(1));
    ex.assume(le(E(N), E(i)));
  } else if (name == "selfloop") { // a block that is its own successor
    var_t i = P.iv("i");
    P.mk("entry", "exit");
    auto &entry = P.cfg->insert("entry");
    auto &l = P.cfg->insert("l");
    auto &ex = P.cfg->insert("exit");
    entry >> l; l >> l; l >> ex;
    entry.assign(i, E(P.K(0)));
    l.add(i, i, P.K(1));
    l.assume(le(E(i), E(P.K(3))));
    P.asrt(ex, le(E(znum(0)), E(i)));
  } else if (name == "entryloop") { // the entry block is itself a loop head
    var_t i = P.iv("i");
    P.mk("entry", "exit");
    auto &entry = P.cfg->insert("entry");
    auto &ex = P.cfg->insert("exit");
    entry >> entry; entry >> ex;
    entry.add(i, i, P.K(1));
    entry.assume(le(E(i), E(P.K(4))));
    ex.assume(le(E(P.K(1)), E(i)));
  } else if (name == "irreducible") { // loop with two entries
    var_t x = P.iv("x");
    P.mk("e", "x");
    auto &e = P.cfg->insert("e");
    auto &a = P.cfg->insert("a");
    auto &b = P.cfg->insert("b");
    auto &xx = P.cfg->insert("x");
    e >> a; e >> b; a >> b; b >> a; a >> xx; b >> xx;
    e.assign(x, E(P.K(0)));
    a.add(x, x, P.K(1));
    a.assume(le(E(x), E(P.K(5))));
    b.add(x, x, znum(2));
    b.assume(le(E(x), E(P.consts[2].num()) + E(znum(1))));
    P.asrt(xx, le(E(x), E(P.K(9))));
  } else if (name == "unreach") { // unreachable block and a block that never reaches exit
    var_t x = P.iv("x"), y = P.iv("y");
    P.mk("e", "x");
    auto &e = P.cfg->insert("e");
    auto &d = P.cfg->insert("dead");
    auto &s = P.cfg->insert("sink");
    auto &m = P.cfg->insert("m");
    auto &xx = P.cfg->insert("x");
    e >> m; e >> d; d >> xx; m >> xx; m >> s;
    e.assign(x, E(P.K(1)));
    d.assume(le(E(x), E(P.K(0))));
    d.assign(y, E(znum(5)));
    s.assign(y, E(x));
    m.assign(y, E(x) + E(P.K(1)));
    P.asrt(xx, le(E(y), E(P.K(3))));
  } else if (name == "ops") { // havoc, select, division, remainder
    var_t x = P.iv("x"), y = P.iv("y"), z = P.iv("z");
    P.mk("e", "x");
    auto &e = P.cfg->insert("e");
    auto &m = P.cfg->insert("m");
    auto &xx = P.cfg->insert("x");
    e >> m; m >> xx;
    e.havoc(x);
    e.assume(le(E(P.K(-4)), E(x)));
    e.assume(le(E(x), E(P.K(6))));
    e.div(y, x, P.K(2));
    m.rem(z, x, znum(3));
    m.select(x, le(E(y), E(P.K(1))), E(z), E(y));
    P.asrt(xx, le(E(x), E(P.K(3))));
  } else if (name == "ops2") { // unsigned division / remainder, bitwise operations, shifts (constant second operands)
    var_t x = P.iv("x"), a = P.iv("a"), b = P.iv("b"), c = P.iv("c"), d = P.iv("d");
    if (P.range == 0) P.range = 4; // bitwise / division results of symbolic operands: keep the symbolic constants within +-4 of the defaults
    P.mk("e", "x");
    auto &e = P.cfg->insert("e");
    auto &m = P.cfg->insert("m");
    auto &xx = P.cfg->insert("x");
    e >> m; m >> xx;
    e.assume(le(E(P.K(0)), E(x)));      // x is not initialised: arbitrary in [K0, K1]
    e.assume(le(E(x), E(P.K(20))));
    e.udiv(a, x, znum(3));
    e.urem(b, x, znum(4));
    e.bitwise_and(c, x, znum(12));
    m.shl(d, b, znum(2));
    m.lshr(a, a, znum(1));
    m.bitwise_or(c, c, znum(3));
    m.bitwise_xor(b, b, znum(5));
    m.ashr(x, x, znum(1));
    P.asrt(xx, le(E(a), E(P.K(3))));
    P.asrt(xx, le(E(d), E(P.K(12))));
    P.asrt(xx, le(E(c), E(P.K(15))));
    P.asrt(xx, le(E(x) + E(b), E(P.K(17))));
  } else if (name == "bools2") { // or / xor / negated copies / Boolean select / numerical select on a Boolean-guarded path
    var_t x = P.iv("x"), y = P.iv("y");
    var_t b1 = P.bv("b1"), b2 = P.bv("b2"), b3 = P.bv("b3"), b4 = P.bv("b4"), b5 = P.bv("b5");
    P.mk("e", "x");
    auto &e = P.cfg->insert("e");
    auto &t = P.cfg->insert("t");
    auto &f = P.cfg->insert("f");
    auto &xx = P.cfg->insert("x");
    e >> t; e >> f; t >> xx; f >> xx;
    e.bool_assign(b1, le(E(x), E(P.K(5))));          // x, y are not initialised
    e.bool_assign(b2, le(E(P.K(2)), E(y)));
    e.bool_or(b3, b1, b2);
    e.bool_xor(b4, b1, b2);
    e.bool_assign(b5, b4, true);                     // b5 := not b4
    e.bool_select(b4, b3, b5, b1);                   // b4 := b3 ? b5 : b1
    t.bool_assume(b4);
    t.select(y, le(E(x), E(P.K(0))), E(x), E(P.K(1)));
    f.bool_not_assume(b3);
    f.assign(y, E(x) - E(P.K(6)));
    P.asrt(xx, le(E(P.K(0)), E(y)));
    xx.bool_assert(b3);
  } else if (name == "boolneg") { // b := not(c) where nothing is recorded for c: what was recorded for b before must not survive
    var_t x = P.iv("x"), y = P.iv("y");
    var_t b = P.bv("b"), c = P.bv("c");
    P.mk("e", "x");
    auto &e = P.cfg->insert("e");
    auto &m = P.cfg->insert("m");
    auto &xx = P.cfg->insert("x");
    e >> m; m >> xx;
    e.assign(y, E(P.K(7)));
    e.bool_assign(b, le(E(P.K(5)), E(x)));           // x is not initialised
    e.havoc(c);
    m.bool_assign(b, c, true);                       // b := not c
    m.bool_assume(b);
    P.asrt(xx, le(E(P.K(3)), E(x)));
  } else if (name == "boolhavoc") { // the operand of a recorded Boolean is havocked while nothing else is known
    var_t x = P.iv("x");
    var_t b = P.bv("b"), c = P.bv("c"), d = P.bv("d");
    P.mk("e", "x");
    auto &e = P.cfg->insert("e");
    auto &m = P.cfg->insert("m");
    auto &k = P.cfg->insert("k");
    auto &xx = P.cfg->insert("x");
    e >> m; m >> k; k >> xx;
    e.bool_assign(b, le(E(P.K(0)), E(x)));          // x, c are not initialised
    e.bool_assign(d, c);
    m.havoc(x);
    m.havoc(c);
    k.bool_assume(b);
    k.bool_assume(d);
    P.asrt(xx, le(E(P.K(-3)), E(x)));
    xx.bool_assert(c);
  } else if (name == "bools") {
    var_t x = P.iv("x"), y = P.iv("y");
    var_t b1 = P.bv("b1"), b2 = P.bv("b2"), b3 = P.bv("b3");
    P.mk("e", "x");
    auto &e = P.cfg->insert("e");
    auto &t = P.cfg->insert("t");
    auto &f = P.cfg->insert("f");
    auto &xx = P.cfg->insert("x");
    e >> t; e >> f; t >> xx; f >> xx;
    e.havoc(x);
    e.bool_assign(b1, le(E(x), E(P.K(5))));
    e.assign(y, E(x) + E(P.K(1)));
    e.bool_assign(b2, le(E(P.K(3)), E(y)));
    e.bool_and(b3, b1, b2);
    t.bool_assume(b3);
    t.assign(x, E(y));
    f.bool_not_assume(b3);
    f.assign(x, E(znum(0)));
    P.asrt(xx, le(E(x), E(P.K(6))));
  } else if (name == "boolstale") { // a Boolean defined before its operand is overwritten
    var_t x = P.iv("x");
    var_t b1 = P.bv("b1"), b2 = P.bv("b2");
    P.mk("e", "x");
    auto &e = P.cfg->insert("e");
    auto &xx = P.cfg->insert("x");
    e >> xx;
    e.havoc(x);
    e.bool_assign(b1, le(E(x), E(P.K(5))));
    e.assign(x, E(P.K(10)));
    e.bool_assign(b2, le(E(P.K(7)), E(x)));
    xx.bool_assume(b1);
    P.asrt(xx, le(E(x), E(P.K(12))));
  } else if (name == "bsel") { // select whose destination occurs in its own condition
    var_t x = P.iv("x");
    P.mk("e", "x");
    auto &e = P.cfg->insert("e");
    auto &c = P.cfg->insert("c");
    auto &xx = P.cfg->insert("x");
    e >> c; c >> xx;
    // x is not initialised: its value at the entry is arbitrary (and observable in the precondition)
    e.select(x, le(E(P.K(10)), E(x)), E(P.K(0)), E(x));
    P.asrt(c, le(E(x), E(P.K(5))));
  } else if (name == "bsel2") { // a select whose condition is decided by the forward invariant
    var_t x = P.iv("x"), k = P.iv("k");
    P.mk("e", "x");
    auto &e = P.cfg->insert("e");
    auto &s2 = P.cfg->insert("s");
    auto &c = P.cfg->insert("c");
    auto &sk = P.cfg->insert("skip");
    auto &xx = P.cfg->insert("x");
    e >> s2; s2 >> c; s2 >> sk; c >> xx; sk >> xx;
    e.assign(k, E(P.K(0)));
    s2.select(x, le(E(P.K(1)), E(k)), E(P.K(0)), E(P.K(20)));
    P.asrt(c, le(E(x), E(P.K(10))));
  } else if (name == "bdiv") { // non-invertible operations before an assertion
    var_t x = P.iv("x"), y = P.iv("y"), z = P.iv("z");
    P.mk("e", "x");
    auto &e = P.cfg->insert("e");
    auto &c = P.cfg->insert("c");
    auto &xx = P.cfg->insert("x");
    e >> c; c >> xx;
    e.div(x, y, P.K(2));
    e.mul(z, x, P.K(3));
    e.rem(y, y, znum(4));
    P.asrt(c, le(E(z), E(P.K(9))));
    P.asrt(c, le(E(y), E(P.K(2))));
  } else if (name == "bloop") { // assertion inside a loop
    var_t i = P.iv("i"), s = P.iv("s");
    P.mk("entry", "exit");
    auto &entry = P.cfg->insert("entry");
    auto &head = P.cfg->insert("head");
    auto &body = P.cfg->insert("body");
    auto &ex = P.cfg->insert("exit");
    entry >> head; head >> body; body >> head; head >> ex;
    entry.havoc(s);
    entry.assign(i, E(P.K(0)));
    body.assume(lt(E(i), E(P.K(3))));
    body.add(s, s, i);
    P.asrt(body, le(E(s), E(P.K(6))));
    body.add(i, i, znum(1));
    ex.assume(le(E(P.consts[1].num()), E(i)));
  } else if (name == "noexit") { // an assertion in a part of the CFG from which the exit cannot be reached
    var_t x = P.iv("x");
    P.mk("e", "x");
    auto &e = P.cfg->insert("e");
    auto &ok = P.cfg->insert("ok");
    auto &n = P.cfg->insert("n");
    auto &m = P.cfg->insert("m");
    auto &xx = P.cfg->insert("x");
    e >> ok; e >> n; ok >> xx; n >> m; m >> m;
    e.assign(x, E(P.K(0)));
    n.add(x, x, P.K(0));
    P.asrt(m, le(E(P.K(1)), E(x)));
  } else if (name == "sumodd") { // single self-loop block; t is live at its end only through the self edge
    var_t n = P.iv("n"), i = P.iv("i"), sv = P.iv("s"), t = P.iv("t");
    P.mk("entry", "exit");
    auto &entry = P.cfg->insert("entry");
    auto &l = P.cfg->insert("l");
    auto &ex = P.cfg->insert("exit");
    entry >> l; entry >> ex; l >> l; l >> ex;
    entry.assign(i, E(P.K(0)));
    entry.assign(sv, E(znum(0)));
    entry.assign(t, E(P.K(1)));
    l.assume(le(E(i), E(n) - E(znum(1))));
    l.add(sv, sv, t);
    l.add(i, i, znum(1));
    l.add(t, t, P.K(2));
    ex.assume(le(E(n), E(i)));
    P.outputs = {sv};
    P.cfg->set_func_decl(cfg_t::fdecl_t("sumodd", {n}, {sv}));
  } else if (name == "deadcode") { // dead assignments, a dead havoc, statements after unreachable
    var_t a = P.iv("a"), x = P.iv("x"), y = P.iv("y"), z = P.iv("z"), w = P.iv("w");
    P.mk("b0", "b3");
    auto &b0 = P.cfg->insert("b0");
    auto &b1 = P.cfg->insert("b1");
    auto &b2 = P.cfg->insert("b2");
    auto &b3 = P.cfg->insert("b3");
    b0 >> b1; b0 >> b2; b1 >> b3; b2 >> b3;
    b0.assign(x, E(a) + E(P.K(1)));
    b0.assign(y, E(x) + E(znum(1)));   // dead
    b0.havoc(w);                        // dead
    b0.assign(z, E(P.K(5)));
    b1.assume(le(E(x), E(P.K(3))));
    b1.assign(y, E(znum(7)));
    b1.add(z, z, x);
    b2.assume(lt(E(P.consts[2].num()), E(x)));
    b2.mul(w, x, znum(2));              // dead
    b2.sub(z, z, y);                    // y live here: b0's definition of y is NOT dead on this path
    P.asrt(b3, le(E(z), E(P.K(20))));
    b3.assign(x, E(znum(0)));           // dead (x is not an output)
    P.outputs = {z};
    P.cfg->set_func_decl(cfg_t::fdecl_t("deadcode", {a}, {z}));
  } else if (name == "inplace") { // in-place updates (x := x + k, s := 2*s, x := ite(c, x, e)) after an earlier definition in the same block
    var_t n = P.iv("n"), x = P.iv("x"), s = P.iv("s"), t = P.iv("t"), y = P.iv("y");
    P.mk("i0", "i3");
    auto &i0 = P.cfg->insert("i0");
    auto &i1 = P.cfg->insert("i1");
    auto &i2 = P.cfg->insert("i2");
    auto &i3 = P.cfg->insert("i3");
    i0 >> i1; i0 >> i2; i1 >> i3; i2 >> i3;
    i0.assign(x, E(n) + E(P.K(0)));
    i0.add(x, x, P.K(1));                 // in-place update: the definition above is live
    i0.assign(s, E(n));
    i0.mul(s, s, znum(2));
    i0.assign(t, E(znum(3)));             // dead: overwritten below without being read
    i0.assign(t, E(x));
    i0.select(t, le(E(s), E(P.K(4))), E(t), E(znum(0)));
    i1.assume(le(E(x), E(P.K(10))));
    i1.assign(y, E(s) + E(t));
    i2.assume(lt(E(P.consts[3].num()), E(x)));
    i2.assign(y, E(znum(0)));
    P.asrt(i3, le(E(y), E(P.K(40))));
    P.outputs = {y};
    P.cfg->set_func_decl(cfg_t::fdecl_t("inplace", {n}, {y}));
  } else if (name == "chain") { // single-successor chains, an unreachable block, a block that cannot reach the exit
    var_t a = P.iv("a"), x = P.iv("x"), y = P.iv("y");
    P.mk("c0", "c4");
    auto &c0 = P.cfg->insert("c0");
    auto &c1 = P.cfg->insert("c1");
    auto &c2 = P.cfg->insert("c2");
    auto &c3 = P.cfg->insert("c3");
    auto &c4 = P.cfg->insert("c4");
    auto &u = P.cfg->insert("unreach");
    auto &k = P.cfg->insert("sink");
    c0 >> c1; c1 >> c2; c2 >> c3; c2 >> k; c3 >> c4; u >> c3;
    c0.assign(x, E(a) + E(P.K(1)));
    c1.add(y, x, P.K(2));
    P.asrt(c1, le(E(y), E(P.K(9))));
    c2.mul(x, y, znum(2));
    c3.assume(le(E(x), E(P.K(30))));
    c3.sub(y, x, y);
    u.assign(y, E(znum(100)));
    k.assign(y, E(znum(-1)));
    P.asrt(c4, le(E(znum(0)), E(y) + E(P.K(50))));
    P.outputs = {y};
    P.cfg->set_func_decl(cfg_t::fdecl_t("chain", {a}, {y}));
  } else if (name == "crawl") { // an assertion in a loop whose operand is overwritten from another variable
    var_t x = P.iv("x"), y = P.iv("y"), k = P.iv("k");
    P.mk("entry", "exit");
    auto &entry = P.cfg->insert("entry");
    auto &head = P.cfg->insert("head");
    auto &body = P.cfg->insert("body");
    auto &ex = P.cfg->insert("exit");
    entry >> head; head >> body; body >> head; head >> ex;
    entry.assign(k, E(znum(0)));
    body.assume(le(E(k), E(P.K(1))));
    P.asrt(body, le(E(P.K(1)), E(x)));
    body.assign(x, E(y));
    body.add(k, k, znum(1));
    ex.assume(le(E(P.consts[0].num()) + E(znum(1)), E(k)));
  } else
    throw sxe::no_verdict{"unknown-program"};
}
} // namespace pg
