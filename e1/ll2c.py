#!/usr/bin/env python3
"""LLVM-14 textual IR (typed pointers) -> C translator for CBMC (prototype)."""
import re, sys

# ---------------------------------------------------------------- tokenizer
TOK = re.compile(r'''
   (?P<ws>\s+)
 | (?P<str>c?"(?:[^"\\]|\\.)*")
 | (?P<gid>@(?:"(?:[^"\\]|\\.)*"|[-a-zA-Z$._0-9]+))
 | (?P<lid>%(?:"(?:[^"\\]|\\.)*"|[-a-zA-Z$._0-9]+))
 | (?P<comdat>\$(?:"(?:[^"\\]|\\.)*"|[-a-zA-Z$._0-9]+))
 | (?P<meta>![-a-zA-Z$._0-9]*)
 | (?P<attr>\#[0-9]+)
 | (?P<hex>0x[KLMHR]?[0-9A-Fa-f]+)
 | (?P<flt>-?[0-9]+\.[0-9]*(?:[eE][-+]?[0-9]+)?)
 | (?P<int>-?[0-9]+)
 | (?P<dots>\.\.\.)
 | (?P<word>[a-zA-Z_][a-zA-Z0-9_.]*)
 | (?P<p>[=,(){}\[\]<>*:|])
''', re.X)

def tokenize(s):
    out = []
    i = 0
    n = len(s)
    while i < n:
        if s[i] == ';':
            break
        m = TOK.match(s, i)
        if not m:
            raise SyntaxError("tok: %r" % s[i:i+40])
        i = m.end()
        k = m.lastgroup
        if k == 'ws':
            continue
        out.append((k, m.group(k)))
    return out

# ---------------------------------------------------------------- types
class Ty:
    def __init__(s, k, **kw):
        s.k = k
        s.__dict__.update(kw)
    def __repr__(s):
        return tystr(s)

def tystr(t):
    k = t.k
    if k == 'int': return 'i%d' % t.n
    if k == 'ptr': return tystr(t.e) + '*'
    if k == 'named': return '%' + t.name
    if k == 'arr': return '[%d x %s]' % (t.n, tystr(t.e))
    if k == 'struct': return ('<{%s}>' if t.packed else '{%s}') % ','.join(map(tystr, t.f))
    if k == 'func': return '%s(%s%s)' % (tystr(t.r), ','.join(map(tystr, t.p)), ',...' if t.va else '')
    return k

VOID = Ty('void')
def I(n): return Ty('int', n=n)
def P(e): return Ty('ptr', e=e)

class Parser:
    def __init__(s, toks):
        s.t = toks
        s.i = 0
    def peek(s, o=0):
        return s.t[s.i+o] if s.i+o < len(s.t) else (None, None)
    def next(s):
        x = s.t[s.i]; s.i += 1; return x
    def accept(s, v):
        if s.peek()[1] == v:
            s.i += 1; return True
        return False
    def expect(s, v):
        x = s.next()
        if x[1] != v:
            raise SyntaxError("expected %r got %r at %r" % (v, x, s.t[max(0,s.i-6):s.i+4]))
    def eof(s): return s.i >= len(s.t)

    def type(s):
        k, v = s.next()
        if k == 'word':
            if v == 'void': t = VOID
            elif re.fullmatch(r'i[0-9]+', v): t = I(int(v[1:]))
            elif v in ('float', 'double', 'x86_fp80', 'half', 'fp128'): t = Ty(v)
            elif v in ('label', 'metadata', 'token'): t = Ty(v)
            elif v == 'opaque': t = Ty('opaque')
            elif v == 'ptr': t = P(I(8))
            else: raise SyntaxError("type? %r" % v)
        elif k == 'lid':
            t = Ty('named', name=unq(v[1:]))
        elif v == '{':
            f = []
            if not s.accept('}'):
                while True:
                    f.append(s.type())
                    if s.accept('}'): break
                    s.expect(',')
            t = Ty('struct', f=f, packed=False)
        elif v == '<':
            if s.peek()[1] == '{':
                s.next()
                f = []
                if not s.accept('}'):
                    while True:
                        f.append(s.type())
                        if s.accept('}'): break
                        s.expect(',')
                s.expect('>')
                t = Ty('struct', f=f, packed=True)
            else:
                n = int(s.next()[1]); s.expect('x'); e = s.type(); s.expect('>')
                t = Ty('vec', n=n, e=e)
        elif v == '[':
            n = int(s.next()[1]); s.expect('x'); e = s.type(); s.expect(']')
            t = Ty('arr', n=n, e=e)
        else:
            raise SyntaxError("type? %r %r" % (k, v))
        while True:
            if s.accept('*'):
                t = P(t)
            elif s.peek()[1] == 'addrspace':
                s.next(); s.expect('('); s.next(); s.expect(')')
            elif s.peek()[1] == '(':
                s.next()
                p = []; va = False
                if not s.accept(')'):
                    while True:
                        if s.accept('...'):
                            va = True
                        else:
                            p.append(s.type())
                            s.skip_param_attrs()
                        if s.accept(')'): break
                        s.expect(',')
                t = Ty('func', r=t, p=p, va=va)
            else:
                break
        return t

    PATTR = {'noundef','nonnull','noalias','nocapture','readonly','readnone','writeonly','signext','zeroext',
             'returned','inreg','nest','immarg','nofree','swiftself','swifterror','noescape'}
    def skip_param_attrs(s):
        attrs = {}
        while True:
            k, v = s.peek()
            if v in s.PATTR:
                s.next()
            elif v in ('align', 'dereferenceable', 'dereferenceable_or_null'):
                s.next()
                if s.accept('('):
                    s.next(); s.expect(')')
                else:
                    s.next()
            elif v in ('byval', 'sret', 'byref', 'preallocated', 'inalloca', 'elementtype'):
                s.next()
                if s.accept('('):
                    attrs[v] = s.type(); s.expect(')')
                else:
                    attrs[v] = None
            else:
                break
        return attrs

    # ---- values: returns python tuples
    def value(s, ty):
        k, v = s.next()
        if k == 'lid': return ('l', unq(v[1:]), ty)
        if k == 'gid': return ('g', unq(v[1:]), ty)
        if k == 'int': return ('i', int(v), ty)
        if k in ('flt', 'hex'): return ('f', v, ty)
        if k == 'str':
            return ('cstr', cbytes(v), ty)
        if k == 'word':
            if v == 'true': return ('i', 1, ty)
            if v == 'false': return ('i', 0, ty)
            if v == 'null': return ('null', None, ty)
            if v in ('undef', 'poison'): return ('undef', None, ty)
            if v == 'zeroinitializer': return ('zero', None, ty)
            if v in ('getelementptr',):
                inb = s.accept('inbounds')
                s.expect('(')
                bt = s.type(); s.expect(',')
                pt = s.type(); base = s.value(pt)
                idx = []
                while s.accept(','):
                    s.accept('inrange')
                    it = s.type(); idx.append(s.value(it))
                s.expect(')')
                return ('cgep', (bt, base, idx), ty)
            if v in ('bitcast', 'ptrtoint', 'inttoptr', 'trunc', 'zext', 'sext', 'addrspacecast'):
                s.expect('(')
                ft = s.type(); x = s.value(ft); s.expect('to'); tt = s.type(); s.expect(')')
                return ('ccast', (v, x, tt), tt)
            if v in ('add', 'sub', 'mul', 'and', 'or', 'xor', 'shl', 'lshr', 'ashr'):
                while s.peek()[1] in ('nsw', 'nuw', 'exact'): s.next()
                s.expect('(')
                t1 = s.type(); a = s.value(t1); s.expect(','); t2 = s.type(); b = s.value(t2); s.expect(')')
                return ('cbin', (v, a, b), t1)
            if v == 'icmp':
                pred = s.next()[1]
                s.expect('(')
                t1 = s.type(); a = s.value(t1); s.expect(','); t2 = s.type(); b = s.value(t2); s.expect(')')
                return ('cicmp', (pred, a, b), I(1))
            if v == 'select':
                s.expect('(')
                t0 = s.type(); c = s.value(t0); s.expect(',')
                t1 = s.type(); a = s.value(t1); s.expect(',')
                t2 = s.type(); b = s.value(t2); s.expect(')')
                return ('csel', (c, a, b), t1)
            if v == 'blockaddress':
                raise SyntaxError('blockaddress')
            raise SyntaxError("value? %r" % v)
        if v == '{' or (v == '<' and s.peek()[1] == '{'):
            if v == '<': s.next()
            el = []
            if not s.accept('}'):
                while True:
                    t = s.type(); el.append(s.value(t))
                    if s.accept('}'): break
                    s.expect(',')
            if v == '<': s.expect('>')
            return ('agg', el, ty)
        if v == '[':
            el = []
            if not s.accept(']'):
                while True:
                    t = s.type(); el.append(s.value(t))
                    if s.accept(']'): break
                    s.expect(',')
            return ('agg', el, ty)
        raise SyntaxError("value? %r %r" % (k, v))

    def tvalue(s):
        t = s.type()
        s.skip_param_attrs()
        return s.value(t)

def unq(n):
    if n.startswith('"'):
        return n[1:-1]
    return n

def cbytes(v):
    body = v[v.index('"')+1:-1]
    out = []
    i = 0
    while i < len(body):
        if body[i] == '\\':
            out.append(int(body[i+1:i+3], 16)); i += 3
        else:
            out.append(ord(body[i])); i += 1
    return out

# ---------------------------------------------------------------- module
class Func:
    pass

class Module:
    def __init__(s):
        s.types = {}     # name -> Ty
        s.type_order = []
        s.globals = {}   # name -> (ty, init, const)
        s.gorder = []
        s.funcs = {}     # name -> Func (decl or def)
        s.forder = []
        s.aliases = {}

LINKAGE = {'private','internal','available_externally','linkonce','weak','common','appending','extern_weak',
           'linkonce_odr','weak_odr','external','dso_local','dso_preemptable','hidden','protected','default',
           'unnamed_addr','local_unnamed_addr','thread_local','externally_initialized','dllimport','dllexport'}

def parse_module(text):
    global TYPES
    m = Module()
    TYPES = m.types
    lines = text.split('\n')
    i = 0
    while i < len(lines):
        ln = lines[i]; i += 1
        if not ln or ln[0] in ';!' or ln.startswith(('source_filename', 'target ', 'attributes ', '$')):
            continue
        if ln[0] == '%':
            toks = tokenize(ln)
            p = Parser(toks)
            name = unq(p.next()[1][1:]); p.expect('='); p.expect('type')
            m.types[name] = p.type(); m.type_order.append(name)
            continue
        if ln[0] == '@':
            toks = tokenize(ln)
            p = Parser(toks)
            name = unq(p.next()[1][1:]); p.expect('=')
            while p.peek()[1] in LINKAGE: p.next()
            if p.peek()[1] == 'alias':
                p.next(); ty = p.type(); p.expect(','); t2 = p.type(); tgt = p.value(t2)
                m.aliases[name] = (ty, tgt)
                continue
            isconst = p.next()[1] == 'constant'
            ty = p.type()
            init = None
            if not p.eof() and p.peek()[1] != ',':
                init = p.value(ty)
            m.globals[name] = (ty, init, isconst); m.gorder.append(name)
            continue
        if ln.startswith('declare') or ln.startswith('define'):
            toks = tokenize(ln)
            p = Parser(toks)
            isdef = p.next()[1] == 'define'
            while p.peek()[1] in LINKAGE or p.peek()[1] in ('noundef','nonnull','noalias','zeroext','signext','fastcc','ccc','coldcc') or p.peek()[1] in ('align','dereferenceable','dereferenceable_or_null'):
                v = p.next()[1]
                if v in ('align','dereferenceable','dereferenceable_or_null'):
                    if p.accept('('):
                        p.next(); p.expect(')')
                    else: p.next()
            rt = p.type()
            name = unq(p.next()[1][1:])
            p.expect('(')
            params = []; va = False
            if not p.accept(')'):
                while True:
                    if p.accept('...'):
                        va = True
                    else:
                        t = p.type(); at = p.skip_param_attrs()
                        pn = None
                        if p.peek()[0] == 'lid': pn = unq(p.next()[1][1:])
                        params.append((t, pn, at))
                    if p.accept(')'): break
                    p.expect(',')
            f = Func(); f.name = name; f.rt = rt; f.params = params; f.va = va; f.blocks = None
            if isdef:
                body = []
                while lines[i] != '}':
                    body.append(lines[i]); i += 1
                i += 1
                f.blocks = parse_body(body, f)
            m.funcs[name] = f; m.forder.append(name)
            continue
        raise SyntaxError("toplevel? %r" % ln[:80])
    return m

def parse_body(lines, f):
    blocks = []
    # implicit entry label number = number of unnamed params... find: clang names entry by number
    cur = None
    j = 0
    nparams_unnamed = 0
    for (t, pn, at) in f.params:
        if pn is None: nparams_unnamed += 1
    entry_name = str(len(f.params)) if all(pn is not None and pn.isdigit() for (_, pn, _) in f.params) else None
    # name unnamed params
    pi = 0
    newp = []
    for (t, pn, at) in f.params:
        if pn is None:
            pn = str(pi)
        pi += 1
        newp.append((t, pn, at))
    f.params = newp
    while j < len(lines):
        ln = lines[j]; j += 1
        s = ln.strip()
        if not s or s.startswith(';'):
            continue
        mm = re.match(r'^("[^"]*"|[-a-zA-Z$._0-9]+):', ln)
        if mm:
            cur = (unq(mm.group(1)), [])
            blocks.append(cur)
            continue
        if cur is None:
            cur = (str(sum(1 for (_, pn, _) in f.params if pn.isdigit())), [])
            blocks.append(cur)
        if s.startswith('switch') or ' switch ' in s.split('=')[0:1][0] if False else s.startswith('switch'):
            while ']' not in s:
                s += ' ' + lines[j].strip(); j += 1
        cur[1].append(parse_inst(s))
    return blocks

FLAGS = {'nsw', 'nuw', 'exact', 'inbounds', 'volatile', 'tail', 'musttail', 'notail', 'fast', 'nnan', 'ninf', 'nsz',
         'arcp', 'contract', 'afn', 'reassoc', 'atomic'}
ORDERINGS = {'unordered', 'monotonic', 'acquire', 'release', 'acq_rel', 'seq_cst'}
CCONV = {'fastcc', 'ccc', 'coldcc'}

def parse_inst(s):
    toks = tokenize(s)
    # strip trailing metadata ", !x !y" and attribute groups
    p = Parser(toks)
    res = None
    if p.peek()[0] == 'lid' and p.peek(1)[1] == '=':
        res = unq(p.next()[1][1:]); p.next()
    op = p.next()[1]
    if op in ('tail', 'musttail', 'notail'):
        op = p.next()[1]
    ins = {'op': op, 'res': res}
    def flags():
        fl = set()
        while p.peek()[1] in FLAGS:
            fl.add(p.next()[1])
        return fl
    if op in ('add', 'sub', 'mul', 'udiv', 'sdiv', 'urem', 'srem', 'shl', 'lshr', 'ashr', 'and', 'or', 'xor',
              'fadd', 'fsub', 'fmul', 'fdiv', 'frem'):
        ins['fl'] = flags()
        t = p.type(); a = p.value(t); p.expect(','); b = p.value(t)
        ins.update(ty=t, a=a, b=b)
    elif op == 'fneg':
        flags(); t = p.type(); ins.update(ty=t, a=p.value(t))
    elif op in ('icmp', 'fcmp'):
        flags()
        pred = p.next()[1]
        t = p.type(); a = p.value(t); p.expect(','); b = p.value(t)
        ins.update(pred=pred, oty=t, a=a, b=b, ty=I(1))
    elif op == 'alloca':
        p.accept('inalloca')
        t = p.type()
        n = None
        if p.accept(','):
            if p.peek()[1] != 'align':
                nt = p.type(); n = p.value(nt)
        ins.update(aty=t, n=n, ty=P(t))
    elif op == 'load':
        fl = flags()
        t = p.type(); p.expect(','); pt = p.type(); a = p.value(pt)
        ins.update(ty=t, a=a)
    elif op == 'store':
        fl = flags()
        t = p.type(); v = p.value(t); p.expect(','); pt = p.type(); a = p.value(pt)
        ins.update(v=v, a=a, ty=VOID)
    elif op == 'getelementptr':
        flags()
        bt = p.type(); p.expect(','); pt = p.type(); base = p.value(pt)
        idx = []
        while p.accept(','):
            if p.peek()[0] == 'meta': break
            it = p.type(); idx.append(p.value(it))
        ins.update(bt=bt, base=base, idx=idx)
        ins['ty'] = P(gep_result_type(bt, idx))
    elif op in ('bitcast', 'trunc', 'zext', 'sext', 'ptrtoint', 'inttoptr', 'fptosi', 'fptoui', 'sitofp', 'uitofp',
                'fpext', 'fptrunc', 'addrspacecast'):
        t = p.type(); a = p.value(t); p.expect('to'); tt = p.type()
        ins.update(fty=t, a=a, ty=tt)
    elif op == 'select':
        flags()
        ct = p.type(); c = p.value(ct); p.expect(','); t = p.type(); a = p.value(t); p.expect(','); t2 = p.type(); b = p.value(t2)
        ins.update(c=c, a=a, b=b, ty=t)
    elif op == 'phi':
        flags()
        t = p.type()
        inc = []
        while True:
            p.expect('['); v = p.value(t); p.expect(','); lb = unq(p.next()[1][1:]); p.expect(']')
            inc.append((v, lb))
            if not p.accept(','): break
            if p.peek()[0] == 'meta': break
        ins.update(ty=t, inc=inc)
    elif op == 'br':
        if p.peek()[1] == 'label':
            p.next(); ins.update(dst=unq(p.next()[1][1:]), c=None)
        else:
            t = p.type(); c = p.value(t); p.expect(','); p.expect('label'); a = unq(p.next()[1][1:]); p.expect(',')
            p.expect('label'); b = unq(p.next()[1][1:])
            ins.update(c=c, a=a, b=b)
        ins['ty'] = VOID
    elif op == 'switch':
        t = p.type(); v = p.value(t); p.expect(','); p.expect('label'); d = unq(p.next()[1][1:]); p.expect('[')
        cases = []
        while not p.accept(']'):
            ct = p.type(); cv = p.value(ct); p.expect(','); p.expect('label'); cases.append((cv, unq(p.next()[1][1:])))
        ins.update(v=v, d=d, cases=cases, ty=VOID)
    elif op == 'ret':
        t = p.type()
        ins.update(ty=VOID, v=None if t.k == 'void' else p.value(t))
    elif op == 'unreachable':
        ins['ty'] = VOID
    elif op in ('call', 'invoke'):
        flags()
        while p.peek()[1] in CCONV: p.next()
        p.skip_param_attrs()
        rt = p.type()
        callee = p.value(None)
        p.expect('(')
        args = []
        if not p.accept(')'):
            while True:
                at = p.type(); attrs = p.skip_param_attrs()
                if at.k == 'metadata':
                    # metadata argument: skip tokens to , or )
                    depth = 0
                    while not (depth == 0 and p.peek()[1] in (',', ')')):
                        v = p.next()[1]
                        if v == '(': depth += 1
                        if v == ')': depth -= 1
                    args.append((('undef', None, at), attrs))
                else:
                    args.append((p.value(at), attrs))
                if p.accept(')'): break
                p.expect(',')
        fty = None
        if rt.k == 'func':
            fty = rt; rt = fty.r
        ins.update(rt=rt, fty=fty, callee=callee, args=args, ty=rt)
        if op == 'invoke':
            while p.peek()[1] != 'to': p.next()
            p.next(); p.expect('label'); ins['normal'] = unq(p.next()[1][1:]); p.expect('unwind'); p.expect('label')
            ins['unwind'] = unq(p.next()[1][1:])
    elif op == 'extractvalue':
        t = p.type(); a = p.value(t); idx = []
        while p.accept(','):
            if p.peek()[0] == 'meta': break
            idx.append(int(p.next()[1]))
        ins.update(aty=t, a=a, idx=idx, ty=agg_index_type(t, idx))
    elif op == 'insertvalue':
        t = p.type(); a = p.value(t); p.expect(','); vt = p.type(); v = p.value(vt); idx = []
        while p.accept(','):
            if p.peek()[0] == 'meta': break
            idx.append(int(p.next()[1]))
        ins.update(ty=t, a=a, v=v, idx=idx)
    elif op == 'atomicrmw':
        flags()
        bop = p.next()[1]
        pt = p.type(); a = p.value(pt); p.expect(','); t = p.type(); v = p.value(t)
        ins.update(bop=bop, a=a, v=v, ty=t)
    elif op == 'cmpxchg':
        p.accept('weak'); flags()
        pt = p.type(); a = p.value(pt); p.expect(','); t = p.type(); c = p.value(t); p.expect(','); t2 = p.type(); n = p.value(t2)
        ins.update(a=a, c=c, n=n, vty=t, ty=Ty('struct', f=[t, I(1)], packed=False))
    elif op == 'fence':
        ins['ty'] = VOID
    elif op == 'landingpad':
        t = p.type(); ins.update(ty=t)
    elif op == 'resume':
        ins['ty'] = VOID
    elif op == 'freeze':
        t = p.type(); ins.update(ty=t, a=p.value(t))
    else:
        raise SyntaxError("inst? %s" % s)
    return ins

TYPES = {}
def resolve(t):
    while t.k == 'named':
        t = TYPES[t.name]
    return t

def gep_result_type(bt, idx):
    t = bt
    for ix in idx[1:]:
        r = resolve(t)
        if r.k == 'struct':
            t = r.f[ix[1]]
        elif r.k in ('arr', 'vec'):
            t = r.e
        else:
            raise SyntaxError("gep into %s" % r)
    return t

def agg_index_type(t, idx):
    for ix in idx:
        r = resolve(t)
        t = r.f[ix] if r.k == 'struct' else r.e
    return t

def ty_align(t):
    t = resolve(t)
    k = t.k
    if k == 'int':
        b = (t.n + 7) // 8
        a = 1
        while a < b: a *= 2
        return min(a, 16)
    if k in ('ptr', 'double'): return 8
    if k == 'float': return 4
    if k == 'x86_fp80': return 16
    if k in ('arr', 'vec'): return ty_align(t.e)
    if k == 'struct':
        if t.packed or not t.f: return 1
        return max(ty_align(f) for f in t.f)
    return 1

def ty_size(t):
    t = resolve(t)
    k = t.k
    if k == 'int':
        b = (t.n + 7) // 8
        a = 1
        while a < b: a *= 2
        return a
    if k in ('ptr', 'double'): return 8
    if k == 'float': return 4
    if k == 'x86_fp80': return 16
    if k in ('arr', 'vec'): return t.n * ty_size(t.e)
    if k == 'struct':
        off = 0
        for f in t.f:
            if not t.packed:
                a = ty_align(f)
                off = (off + a - 1) // a * a
            off += ty_size(f)
        if not t.packed and t.f:
            a = ty_align(t)
            off = (off + a - 1) // a * a
        return off
    raise SyntaxError("sizeof %s" % t)

# ---------------------------------------------------------------- C emission
class Emit:
    def __init__(s, m):
        s.m = m
        s.out = []
        s.tnames = {}     # canonical type string -> C name (for anonymous aggregates / fn types)
        s.tdefs = []      # ordered typedef lines
        s.struct_done = set()
        s.struct_decl = []
        s.gname = {}
    def mangle(s, n):
        r = re.sub(r'[^A-Za-z0-9_]', lambda mm: '_%02x' % ord(mm.group(0)), n)
        return r
    def G(s, n):
        if n in ('malloc', 'free', 'memcpy', 'memset', 'memmove', 'exit', 'abort', 'strlen', 'memcmp', 'strcmp', 'realloc', 'calloc'):
            return 'll_' + n
        if n.startswith('llvm.'):
            return 'llvm_' + s.mangle(n[5:])
        return s.mangle(n) if not re.fullmatch(r'[A-Za-z_][A-Za-z0-9_]*', n) else n
    def L(s, n):
        return 'v_' + s.mangle(n)
    def cty(s, t):
        k = t.k
        if k == 'void': return 'void'
        if k == 'int':
            n = t.n
            if n == 1: return 'uint8_t'
            if n in (8, 16, 32, 64): return 'uint%d_t' % n
            if n == 128: return 'unsigned __int128'
            return 'unsigned __CPROVER_bitvector[%d]' % n
        if k == 'float': return 'float'
        if k == 'double': return 'double'
        if k == 'x86_fp80': return 'long double'
        if k == 'ptr':
            e = t.e
            if e.k == 'func':
                return s.fnptr(e)
            if e.k == 'void' or e.k == 'opaque':
                return 'uint8_t*'
            return s.cty(e) + '*'
        if k == 'named':
            r = s.m.types[t.name]
            if r.k == 'opaque':
                return 'struct S_' + s.mangle(t.name)
            s.need_struct(t.name)
            return 'struct S_' + s.mangle(t.name)
        if k == 'struct' or k == 'arr':
            key = tystr(t)
            if key not in s.tnames:
                nm = 'A%d' % len(s.tnames)
                s.tnames[key] = nm
                if k == 'arr':
                    body = '%s e[%d];' % (s.cty(t.e), max(t.n, 1))
                    s.struct_decl.append('struct %s { %s };' % (nm, body))
                else:
                    s.struct_decl.append(s.struct_body('struct ' + nm, t))
            return 'struct ' + s.tnames[key]
        if k == 'func':
            return s.fnptr(t)[:-0] if False else 'uint8_t'
        if k == 'opaque': return 'uint8_t'
        raise SyntaxError("cty %s" % t)
    def fnptr(s, ft):
        key = 'fn:' + tystr(ft)
        if key not in s.tnames:
            nm = 'F%d' % len(s.tnames)
            s.tnames[key] = nm
            ps = ', '.join(s.cty(p) for p in ft.p) or ('void' if not ft.va else '')
            if ft.va:
                ps = (ps + ', ...') if ps else '...'
                if ps == '...': ps = ''   # K&R-style unknown prototype
            s.struct_decl.append('typedef %s (*%s)(%s);' % (s.cty(ft.r), nm, ps))
        return s.tnames[key]
    def struct_body(s, head, t):
        if not t.f:
            return '%s { uint8_t _empty; };' % head
        fs = ' '.join('%s f%d;' % (s.cty(ft), i) for i, ft in enumerate(t.f))
        return '%s { %s }%s;' % (head, fs, ' __attribute__((packed))' if t.packed else '')
    def need_struct(s, name):
        if name in s.struct_done: return
        s.struct_done.add(name)
        t = s.m.types[name]
        if t.k == 'opaque': return
        # by-value fields need full definitions first
        line = s.struct_body('struct S_' + s.mangle(name), t)
        s.struct_decl.append(line)

    # ---- constants / operands
    def val(s, v, want_ty=None):
        k, x, ty = v
        if k == 'l': return s.L(x)
        if k == 'g':
            if x in s.m.funcs:
                return '(&%s)' % s.G(x) if False else s.G(x)
            return '(&%s)' % s.G(x)
        if k == 'i':
            t = resolve(ty) if ty else I(64)
            if t.k == 'ptr':
                return '((%s)0)' % s.cty(ty)
            n = t.n if t.k == 'int' else 64
            if x < 0: x += 1 << n
            if n == 128:
                return '(((unsigned __int128)%dULL << 64) | %dULL)' % (x >> 64, x & ((1 << 64) - 1))
            return '((%s)%dULL)' % (s.cty(t), x)
        if k == 'f':
            if x.startswith('0x'):
                import struct
                return repr(struct.unpack('>d', bytes.fromhex(x[2:].rjust(16, '0')))[0])
            return x
        if k == 'null': return '((%s)0)' % s.cty(ty)
        if k in ('undef', 'zero'):
            t = resolve(ty)
            if t.k in ('struct', 'arr'):
                return '((%s){0})' % s.cty(ty)
            if t.k == 'ptr': return '((%s)0)' % s.cty(ty)
            return '((%s)0)' % s.cty(ty)
        if k == 'ccast':
            op, a, tt = x
            return s.cast(op, a, tt)
        if k == 'cgep':
            bt, base, idx = x
            return s.gep(bt, base, idx)
        if k == 'cbin':
            op, a, b = x
            return s.binop(op, a[2], s.val(a), s.val(b))
        if k == 'cicmp':
            pred, a, b = x
            return s.icmp(pred, a[2], s.val(a), s.val(b))
        if k == 'csel':
            c, a, b = x
            return '(%s ? %s : %s)' % (s.val(c), s.val(a), s.val(b))
        if k == 'agg':
            return '((%s)%s)' % (s.cty(ty), s.init(v))
        if k == 'cstr':
            return '((%s)%s)' % (s.cty(ty), s.init(v))
        raise SyntaxError("val %r" % (v,))
    def init(s, v):
        k, x, ty = v
        t = resolve(ty)
        if k == 'cstr':
            return '{{%s}}' % ','.join(map(str, x))
        if k == 'agg':
            if t.k == 'arr':
                return '{{%s}}' % ','.join(s.init(e) for e in x)
            return '{%s}' % ','.join(s.init(e) for e in x) if x else '{0}'
        if k in ('zero', 'undef'):
            if t.k in ('struct', 'arr'): return '{0}'
            return '0'
        return s.val(v)
    def cast(s, op, a, tt):
        ft = a[2]
        av = s.val(a)
        ct = s.cty(tt)
        if op in ('bitcast', 'addrspacecast'):
            rf, rt = resolve(ft), resolve(tt)
            if rf.k == 'ptr' or rt.k == 'ptr':
                return '((%s)%s)' % (ct, av)
            if rf.k == rt.k == 'int':
                return '((%s)%s)' % (ct, av)
            return '(*(%s*)&(%s){%s})' % (ct, s.cty(ft), av)  # float<->int bit casts
        if op == 'ptrtoint': return '((%s)(uintptr_t)%s)' % (ct, av)
        if op == 'inttoptr': return '((%s)(uintptr_t)%s)' % (ct, av)
        if op == 'trunc':
            return s.norm(tt, '((%s)%s)' % (ct, av))
        if op == 'zext': return '((%s)%s)' % (ct, av)
        if op == 'sext': return s.norm(tt, '((%s)%s)' % (ct, s.signed(ft, av)))
        if op in ('sitofp',): return '((%s)%s)' % (ct, s.signed(ft, av))
        if op in ('uitofp', 'fpext', 'fptrunc'): return '((%s)%s)' % (ct, av)
        if op == 'fptosi': return '((%s)(%s)%s)' % (ct, s.sty(tt), av)
        if op == 'fptoui': return '((%s)%s)' % (ct, av)
        raise SyntaxError(op)
    def sty(s, t):
        t = resolve(t)
        n = t.n
        if n in (8, 16, 32, 64): return 'int%d_t' % n
        if n == 1: return '__CPROVER_bitvector[1]'
        if n == 128: return '__int128'
        return '__CPROVER_bitvector[%d]' % n
    def signed(s, t, v):
        t = resolve(t)
        if t.n == 1:
            return '(-(int8_t)(%s))' % v   # i1 1 -> -1
        return '((%s)%s)' % (s.sty(t), v)
    def norm(s, t, v):
        t = resolve(t)
        if t.k == 'int' and t.n == 1:
            return '((uint8_t)((%s) & 1))' % v
        return v
    def binop(s, op, ty, a, b):
        t = resolve(ty)
        ct = s.cty(ty)
        if t.k in ('float', 'double'):
            o = {'fadd': '+', 'fsub': '-', 'fmul': '*', 'fdiv': '/'}[op]
            return '(%s %s %s)' % (a, o, b)
        n = t.n
        wide = n < 32
        if op in ('add', 'sub', 'mul', 'and', 'or', 'xor'):
            o = {'add': '+', 'sub': '-', 'mul': '*', 'and': '&', 'or': '|', 'xor': '^'}[op]
            e = '((%s)(%s %s %s))' % (ct, ('(uint32_t)' + a) if wide else a, o, ('(uint32_t)' + b) if wide else b)
            return s.norm(ty, e)
        if op == 'udiv': return '((%s)(%s / %s))' % (ct, a, b)
        if op == 'urem': return '((%s)(%s %% %s))' % (ct, a, b)
        if op == 'sdiv': return s.norm(ty, '((%s)(%s / %s))' % (ct, s.signed(ty, a), s.signed(ty, b)))
        if op == 'srem': return s.norm(ty, '((%s)(%s %% %s))' % (ct, s.signed(ty, a), s.signed(ty, b)))
        if op == 'shl': return s.norm(ty, '((%s)(%s << %s))' % (ct, ('(uint32_t)' + a) if wide else a, b))
        if op == 'lshr': return '((%s)(%s >> %s))' % (ct, a, b)
        if op == 'ashr': return s.norm(ty, '((%s)(%s >> %s))' % (ct, s.signed(ty, a), b))
        raise SyntaxError(op)
    def icmp(s, pred, ty, a, b):
        t = resolve(ty)
        if pred in ('eq', 'ne'):
            return '((uint8_t)(%s %s %s))' % (a, '==' if pred == 'eq' else '!=', b)
        o = {'gt': '>', 'ge': '>=', 'lt': '<', 'le': '<='}[pred[1:]]
        if pred[0] == 's':
            return '((uint8_t)(%s %s %s))' % (s.signed(ty, a), o, s.signed(ty, b))
        if t.k == 'ptr':
            return '((uint8_t)((uintptr_t)%s %s (uintptr_t)%s))' % (a, o, b)
        return '((uint8_t)(%s %s %s))' % (a, o, b)
    def gep(s, bt, base, idx):
        # &((bt*)base)[i0].f.e[i]...
        e = '((%s*)%s)' % (s.cty(bt) if resolve(bt).k not in ('func',) else 'uint8_t', s.val(base))
        first = idx[0]
        e = '%s[%s]' % (e, s.idxv(first))
        t = bt
        for ix in idx[1:]:
            r = resolve(t)
            if r.k == 'struct':
                e += '.f%d' % ix[1]; t = r.f[ix[1]]
            else:
                e += '.e[%s]' % s.idxv(ix); t = r.e
        return '(&%s)' % e
    def idxv(s, ix):
        if ix[0] == 'i': return str(ix[1])
        return '(%s)%s' % (s.sty(ix[2]), s.val(ix))

    # ---- functions
    def proto(s, f):
        ps = ', '.join('%s %s' % (s.cty(t), s.L(pn if pn is not None else 'p%d' % i)) for i, (t, pn, at) in enumerate(f.params))
        if f.va: ps = (ps + ', ...') if ps else ''
        if not ps and not f.va: ps = 'void'
        return '%s %s(%s)' % (s.cty(f.rt), s.G(f.name), ps)

    def func(s, f):
        o = []
        o.append(s.proto(f) + ' {')
        decls = {}
        phis = {}   # block -> list of (res, ty, inc)
        for (bn, insts) in f.blocks:
            for ins in insts:
                if ins['res'] is not None and ins['ty'].k != 'void':
                    decls[ins['res']] = ins['ty']
                if ins['op'] == 'phi':
                    phis.setdefault(bn, []).append(ins)
        for n, t in decls.items():
            o.append('  %s %s;' % (s.cty(t), s.L(n)))
        for bn, pl in phis.items():
            for ins in pl:
                o.append('  %s %s_phi;' % (s.cty(ins['ty']), s.L(ins['res'])))
        s.curphis = phis
        s.defs = {}
        for (bn, insts) in f.blocks:
            for ins in insts:
                if ins['res'] is not None: s.defs[ins['res']] = ins
        for bi, (bn, insts) in enumerate(f.blocks):
            o.append(' %s: ;' % s.BL(bn))
            for ins in insts:
                s.inst(ins, o, bn, f)
        o.append('}')
        return '\n'.join(o)
    def BL(s, bn):
        return 'bb_' + s.mangle(bn)
    def jump(s, frm, to, o, ind='  '):
        pl = s.curphis.get(to, [])
        for ins in pl:
            for (v, lb) in ins['inc']:
                if lb == frm or (frm == '__entry__' and False):
                    o.append('%s%s_phi = %s;' % (ind, s.L(ins['res']), s.val(v)))
                    break
        o.append('%sgoto %s;' % (ind, s.BL(to)))
    def inst(s, ins, o, bn, f):
        op = ins['op']
        r = s.L(ins['res']) if ins['res'] is not None else None
        def setr(e):
            o.append('  %s = %s;' % (r, e))
        if op == 'phi':
            setr(r + '_phi')
        elif op in ('add', 'sub', 'mul', 'udiv', 'sdiv', 'urem', 'srem', 'shl', 'lshr', 'ashr', 'and', 'or', 'xor',
                    'fadd', 'fsub', 'fmul', 'fdiv'):
            setr(s.binop(op, ins['ty'], s.val(ins['a']), s.val(ins['b'])))
        elif op == 'icmp':
            setr(s.icmp(ins['pred'], ins['oty'], s.val(ins['a']), s.val(ins['b'])))
        elif op == 'fcmp':
            pr = ins['pred']
            cm = {'oeq': '==', 'une': '!=', 'olt': '<', 'ole': '<=', 'ogt': '>', 'oge': '>=', 'ueq': '==', 'one': '!=',
                  'ult': '<', 'ule': '<=', 'ugt': '>', 'uge': '>='}[pr]
            setr('((uint8_t)(%s %s %s))' % (s.val(ins['a']), cm, s.val(ins['b'])))
        elif op == 'alloca':
            ct = s.cty(ins['aty'])
            if ins['n'] is None or (ins['n'][0] == 'i' and ins['n'][1] == 1):
                o.append('  %s %s_mem; %s = &%s_mem;' % (ct, r, r, r))
            else:
                setr('(%s*)ll_malloc(sizeof(%s) * %s)' % (ct, ct, s.val(ins['n'])))
        elif op == 'load':
            setr('*(%s)' % s.val(ins['a']))
        elif op == 'store':
            o.append('  *(%s) = %s;' % (s.val(ins['a']), s.val(ins['v'])))
        elif op == 'getelementptr':
            setr('(%s)%s' % (s.cty(ins['ty']), s.gep(ins['bt'], ins['base'], ins['idx'])))
        elif op in ('bitcast', 'trunc', 'zext', 'sext', 'ptrtoint', 'inttoptr', 'fptosi', 'fptoui', 'sitofp', 'uitofp',
                    'fpext', 'fptrunc', 'addrspacecast'):
            setr(s.cast(op, ins['a'], ins['ty']))
        elif op == 'select':
            setr('(%s ? %s : %s)' % (s.val(ins['c']), s.val(ins['a']), s.val(ins['b'])))
        elif op == 'freeze':
            setr(s.val(ins['a']))
        elif op == 'br':
            if ins['c'] is None:
                s.jump(bn, ins['dst'], o)
            else:
                o.append('  if (%s) {' % s.val(ins['c']))
                s.jump(bn, ins['a'], o, '    ')
                o.append('  } else {')
                s.jump(bn, ins['b'], o, '    ')
                o.append('  }')
        elif op == 'switch':
            v = s.val(ins['v'])
            for (cv, lb) in ins['cases']:
                o.append('  if (%s == %s) {' % (v, s.val(cv)))
                s.jump(bn, lb, o, '    ')
                o.append('  }')
            s.jump(bn, ins['d'], o)
        elif op == 'ret':
            o.append('  return%s;' % ('' if ins['v'] is None else ' ' + s.val(ins['v'])))
        elif op == 'unreachable':
            o.append('  __CPROVER_assume(0);')
            if f.rt.k != 'void':
                o.append('  return (%s){0};' % s.cty(f.rt) if resolve(f.rt).k in ('struct', 'arr') else '  return (%s)0;' % s.cty(f.rt))
            else:
                o.append('  return;')
        elif op in ('call', 'invoke'):
            s.call(ins, o, r, bn)
        elif op == 'extractvalue':
            e = s.val(ins['a']); t = ins['aty']
            for ix in ins['idx']:
                rt_ = resolve(t)
                if rt_.k == 'struct': e += '.f%d' % ix; t = rt_.f[ix]
                else: e += '.e[%d]' % ix; t = rt_.e
            setr(e)
        elif op == 'insertvalue':
            setr(s.val(ins['a']))
            e = r; t = ins['ty']
            for ix in ins['idx']:
                rt_ = resolve(t)
                if rt_.k == 'struct': e += '.f%d' % ix; t = rt_.f[ix]
                else: e += '.e[%d]' % ix; t = rt_.e
            o.append('  %s = %s;' % (e, s.val(ins['v'])))
        elif op == 'atomicrmw':
            a = s.val(ins['a']); v = s.val(ins['v'])
            setr('*(%s)' % a)
            bop = ins['bop']
            if bop == 'xchg': o.append('  *(%s) = %s;' % (a, v))
            else:
                cop = {'add': 'add', 'sub': 'sub', 'and': 'and', 'or': 'or', 'xor': 'xor'}[bop]
                o.append('  *(%s) = %s;' % (a, s.binop(cop, ins['ty'], r, v)))
        elif op == 'cmpxchg':
            a = s.val(ins['a'])
            o.append('  %s.f0 = *(%s); %s.f1 = (%s.f0 == %s); if (%s.f1) *(%s) = %s;' % (r, a, r, r, s.val(ins['c']), r, a, s.val(ins['n'])))
        elif op == 'fence':
            pass
        elif op == 'landingpad':
            pass
        elif op == 'resume':
            o.append('  __CPROVER_assume(0);')
        else:
            raise SyntaxError(op)

    def copy_types(s, v, n):
        """C types T (as strings) such that v points at the start of a T of size n."""
        seen = 0
        while v[0] == 'l' and v[1] in s.defs and seen < 20:
            d = s.defs[v[1]]; seen += 1
            if d['op'] == 'bitcast': v = d['a']
            elif d['op'] == 'getelementptr' and all(ix[0] == 'i' and ix[1] == 0 for ix in d['idx']): v = d['base']
            else: break
        if v[0] == 'ccast' and v[1][0] == 'bitcast': v = v[1][1]
        t = v[2]
        out = []
        if t is None or resolve(t).k != 'ptr': return out
        t = resolve(t).e
        for _ in range(12):
            r = resolve(t)
            if r.k in ('func', 'void', 'opaque'): break
            try: sz = ty_size(t)
            except Exception: break
            if sz == n and r.k in ('struct', 'arr'): out.append(s.cty(t))
            if r.k == 'struct' and r.f: t = r.f[0]
            elif r.k == 'arr' and r.n: t = r.e
            else: break
        return out

    def vt_slots(s):
        if hasattr(s, '_vts'): return s._vts
        vts = {}
        def fn_of(v):
            while v[0] == 'ccast': v = v[1][1]
            if v[0] == 'g' and v[1] in s.m.aliases: v = s.m.aliases[v[1]][1]
            while v[0] == 'ccast': v = v[1][1]
            return v[1] if v[0] == 'g' and v[1] in s.m.funcs else None
        for n, (ty, init, const) in s.m.globals.items():
            if not n.startswith('_ZTV') or init is None or init[0] != 'agg': continue
            for arr in init[1]:
                if arr[0] != 'agg': continue
                for i, e in enumerate(arr[1]):
                    f = fn_of(e)
                    if f is not None and i >= 2:
                        vts.setdefault(i - 2, set()).add(f)
        s._vts = vts
        return vts

    def devirt(s, cal, ft):
        """Candidates for a virtual call: functions found in the same vtable slot with a call-compatible shape."""
        def strip(v):
            n = 0
            while v[0] == 'l' and v[1] in s.defs and s.defs[v[1]]['op'] == 'bitcast' and n < 8:
                v = s.defs[v[1]]['a']; n += 1
            return v
        v = strip(cal)
        if v[0] != 'l' or v[1] not in s.defs or s.defs[v[1]]['op'] != 'load': return None
        pv = strip(s.defs[v[1]]['a'])
        k = 0
        if pv[0] == 'l' and pv[1] in s.defs and s.defs[pv[1]]['op'] == 'getelementptr':
            g = s.defs[pv[1]]
            if len(g['idx']) != 1 or g['idx'][0][0] != 'i': return None
            k = g['idx'][0][1]; pv = strip(g['base'])
        if pv[0] != 'l' or pv[1] not in s.defs or s.defs[pv[1]]['op'] != 'load': return None
        def shape(rt, ps):
            def c(t):
                r = resolve(t)
                return 'P' if r.k == 'ptr' else tystr(r)
            return (c(rt), tuple(c(p) for p in ps))
        want = shape(ft.r, ft.p)
        out = []
        for fn in sorted(s.vt_slots().get(k, ())):
            f = s.m.funcs[fn]
            if f.va: continue
            if shape(f.rt, [p[0] for p in f.params]) == want: out.append(fn)
        return out or None

    def call(s, ins, o, r, bn):
        cal = ins['callee']
        args = ins['args']
        name = cal[1] if cal[0] == 'g' else None
        if name in s.m.aliases:
            name = s.m.aliases[name][1][1]
        if name and name.startswith('llvm.'):
            if name.startswith(('llvm.lifetime', 'llvm.dbg', 'llvm.experimental.noalias', 'llvm.assume', 'llvm.invariant')):
                return
            if name.startswith('llvm.memcpy') or name.startswith('llvm.memmove'):
                fn = 'll_memcpy' if 'memcpy' in name else 'll_memmove'
                n = args[2][0]
                if n[0] == 'i':
                    cd = s.copy_types(args[0][0], n[1]); cs = s.copy_types(args[1][0], n[1])
                    common = [t for t in cd if t in cs]
                    if common:
                        ct = common[0]
                        o.append('  *(%s*)%s = *(%s*)%s;' % (ct, s.val(args[0][0]), ct, s.val(args[1][0])))
                        return
                    if n[1] == 0: return
                    if n[1] <= 256:
                        o.append('  *(struct ll_bytes_%d *)%s = *(struct ll_bytes_%d *)%s;' % (n[1], s.val(args[0][0]), n[1], s.val(args[1][0])))
                        return
                o.append('  %s(%s, %s, %s);' % (fn, s.val(args[0][0]), s.val(args[1][0]), s.val(args[2][0])))
                return
            if name.startswith('llvm.memset'):
                o.append('  memset(%s, %s, %s);' % (s.val(args[0][0]), s.val(args[1][0]), s.val(args[2][0])))
                return
            mm = re.match(r'llvm\.(abs|smax|smin|umax|umin|ctlz|cttz|ctpop|fshl|fshr|bswap)\.i(\d+)', name)
            if mm:
                fnm, n = mm.group(1), int(mm.group(2))
                a = [s.val(x[0]) for x in args]
                ty = ins['ty']
                sg = lambda v: s.signed(ty, v)
                ct = s.cty(ty)
                if fnm == 'abs': e = '(%s < 0 ? (%s)(0 - %s) : %s)' % (sg(a[0]), ct, a[0], a[0])
                elif fnm == 'smax': e = '(%s > %s ? %s : %s)' % (sg(a[0]), sg(a[1]), a[0], a[1])
                elif fnm == 'smin': e = '(%s < %s ? %s : %s)' % (sg(a[0]), sg(a[1]), a[0], a[1])
                elif fnm == 'umax': e = '(%s > %s ? %s : %s)' % (a[0], a[1], a[0], a[1])
                elif fnm == 'umin': e = '(%s < %s ? %s : %s)' % (a[0], a[1], a[0], a[1])
                elif fnm == 'fshl': e = '((%s)(%s == 0 ? %s : ((%s << (%s %% %d)) | (%s >> (%d - (%s %% %d))))))' % (ct, '(%s %% %d)' % (a[2], n), a[0], a[0], a[2], n, a[1], n, a[2], n)
                elif fnm == 'fshr': e = '((%s)(%s == 0 ? %s : ((%s >> (%s %% %d)) | (%s << (%d - (%s %% %d))))))' % (ct, '(%s %% %d)' % (a[2], n), a[1], a[1], a[2], n, a[0], n, a[2], n)
                else: e = 'll_%s%d(%s)' % (fnm, n, a[0])
                o.append('  %s = %s;' % (r, e))
                return
            mm = re.match(r'llvm\.(sadd|uadd|ssub|usub|smul|umul)\.with\.overflow\.i(\d+)', name)
            if mm:
                fnm, n = mm.group(1), int(mm.group(2))
                o.append('  %s = ll_%s%d(%s, %s);' % (r, fnm, n, s.val(args[0][0]), s.val(args[1][0])))
                return
            if name.startswith('llvm.expect'):
                o.append('  %s = %s;' % (r, s.val(args[0][0]))); return
            if name.startswith(('llvm.trap', 'llvm.debugtrap')):
                o.append('  __CPROVER_assume(0);'); return
            if name.startswith('llvm.objectsize'):
                o.append('  %s = (%s)-1;' % (r, s.cty(ins['ty']))); return
            raise SyntaxError("intrinsic %s" % name)
        av = []
        for (a, attrs) in args:
            av.append(s.val(a))
        if name:
            fe = s.G(name)
            # if declared signature disagrees with call-site types, cast
            f = s.m.funcs.get(name)
            if f is None or ins['fty'] is not None and f.va is False and f.blocks is None and False:
                pass
        else:
            ft = ins['fty']
            if ft is None:
                ft = Ty('func', r=ins['rt'], p=[a[0][2] for a in args], va=False)
            cands = s.devirt(cal, ft)
            if cands:
                fpv = s.val(cal)
                first = True
                for cn in cands:
                    cf = s.m.funcs[cn]
                    cav = ['(%s)%s' % (s.cty(pt), v) if resolve(pt).k == 'ptr' else v for (pt, _, _), v in zip(cf.params, av)]
                    ce = '%s(%s)' % (s.G(cn), ', '.join(cav))
                    if r is not None and ins['ty'].k != 'void':
                        ce = '%s = (%s)%s' % (r, s.cty(ins['ty']), ce) if resolve(ins['ty']).k == 'ptr' else '%s = %s' % (r, ce)
                    o.append('  %sif ((uint8_t*)%s == (uint8_t*)%s) { %s; }' % ('' if first else 'else ', fpv, s.G(cn), ce))
                    first = False
                o.append('  else { __CPROVER_assume(0); }')
                if ins['op'] == 'invoke':
                    s.jump(bn, ins['normal'], o)
                return
            fe = '((%s)%s)' % (s.fnptr(ft), s.val(cal))
        e = '%s(%s)' % (fe, ', '.join(av))
        if r is not None and ins['ty'].k != 'void':
            o.append('  %s = %s;' % (r, e))
        else:
            o.append('  %s;' % e)
        if ins['op'] == 'invoke':
            s.jump(bn, ins['normal'], o)

    def module(s):
        global TYPES
        TYPES = s.m.types
        body = []
        # functions prototypes
        protos = []
        for n in s.m.forder:
            f = s.m.funcs[n]
            if n.startswith('llvm.'): continue
            protos.append(s.proto(f) + ';')
        gl = []
        gdecl = []
        for n in s.m.gorder:
            ty, init, const = s.m.globals[n]
            if n.startswith('llvm.'): continue
            ct = s.cty(ty)
            gdecl.append('extern %s %s;' % (ct, s.G(n)))
            if init is not None:
                gl.append('%s %s = %s;' % (ct, s.G(n), s.init(init)))
        al = []
        for n, (ty, tgt) in s.m.aliases.items():
            if tgt[1] in s.m.funcs:
                al.append('#define %s %s' % (s.G(n), s.G(tgt[1])))
        for n in s.m.forder:
            f = s.m.funcs[n]
            if f.blocks is not None:
                body.append(s.func(f))
        # order struct decls: forward declare all named
        fw = ['struct S_%s;' % s.mangle(n) for n in s.m.type_order]
        fw += ['struct %s;' % v for k, v in s.tnames.items() if not k.startswith('fn:')]
        decls = order_decls(s.struct_decl)
        return '\n'.join(['#include "ll_prelude.h"'] + fw + decls + al + protos + gdecl + gl + body) + '\n'

def order_decls(decls):
    """Topologically order struct definitions by by-value containment."""
    name_of = {}
    for d in decls:
        mm = re.match(r'struct (\w+) \{', d)
        if mm: name_of[mm.group(1)] = d
    done = set(); out = []
    tdefs = [d for d in decls if d.startswith('typedef')]
    def visit(n, stack=()):
        if n in done or n not in name_of: return
        if n in stack: return
        d = name_of[n]
        body = d[d.index('{'):]
        for mm in re.finditer(r'struct (\w+) (?!\*)f?\w*', body):
            pass
        for mm in re.finditer(r'struct (\w+) (\w+)(\[\d+\])?;', body):
            visit(mm.group(1), stack + (n,))
        done.add(n); out.append(d)
    for n in list(name_of):
        visit(n)
    # typedefs of function pointers may mention structs by value in params -> put after all structs
    return tdefs + out

if __name__ == '__main__':
    text = open(sys.argv[1]).read()
    m = parse_module(text)
    TYPES = m.types
    e = Emit(m)
    c = e.module()
    open(sys.argv[2], 'w').write(c)
