/* Inline bounded-integer model of GMP for engine E1 (environment model, see DESIGN.md §3).
 * An mpz_t holds its value in a 128-bit integer: additions/subtractions/comparisons/bitwise
 * operations are exact for every value the 64-bit entry points of lib/bignums.cpp can produce;
 * multiplication and division are computed at 32 bit and their operands are range-asserted
 * (v_model_range) to +-2^VW, because wide symbolic multipliers/dividers do not finish in a SAT
 * back end.  v_model_range()/v_model_div0() are assertions that must be unreachable: a harness
 * whose values leave the model gets NO-VERDICT, never success. */
#ifndef VERIF_GMP_STUB_H
#define VERIF_GMP_STUB_H
#include <stddef.h>
#ifdef __cplusplus
extern "C" {
#endif
typedef unsigned long mp_limb_t;
typedef unsigned long mp_bitcnt_t;
typedef __int128 VMPZ_T;
typedef struct { VMPZ_T v; int _mp_size; mp_limb_t *_mp_d; } __mpz_struct;
typedef __mpz_struct mpz_t[1];
typedef __mpz_struct *mpz_ptr;
typedef const __mpz_struct *mpz_srcptr;
void v_model_range(void); /* reached iff a value leaves the model's range */
void v_model_div0(void);
#define VINL static inline __attribute__((always_inline))
#ifndef VW
#define VW 15
#endif
VINL VMPZ_T v_wide(VMPZ_T x) { if (x > ((VMPZ_T)1 << 100) || x < -((VMPZ_T)1 << 100)) v_model_range(); return x; }
VINL int v_narrow(VMPZ_T x) { if (x > (1L << VW) || x < -(1L << VW)) v_model_range(); return (int)x; }
VINL void mpz_init(mpz_ptr r) { r->v = 0; r->_mp_size = 0; r->_mp_d = 0; }
VINL void mpz_clear(mpz_ptr r) { (void)r; }
VINL void mpz_set(mpz_ptr r, mpz_srcptr a) { r->v = a->v; }
VINL void mpz_init_set(mpz_ptr r, mpz_srcptr a) { mpz_init(r); r->v = a->v; }
VINL void mpz_init_set_si(mpz_ptr r, long x) { mpz_init(r); r->v = x; }
VINL void mpz_set_ui(mpz_ptr r, unsigned long x) { r->v = (VMPZ_T)x; }
VINL void mpz_set_si(mpz_ptr r, long x) { r->v = (VMPZ_T)x; }
VINL int mpz_cmp(mpz_srcptr a, mpz_srcptr b) { return a->v < b->v ? -1 : (a->v > b->v ? 1 : 0); }
VINL int mpz_sgn(mpz_srcptr a) { return a->v < 0 ? -1 : (a->v > 0 ? 1 : 0); }
VINL void mpz_add(mpz_ptr r, mpz_srcptr a, mpz_srcptr b) { r->v = v_wide(a->v + b->v); }
VINL void mpz_sub(mpz_ptr r, mpz_srcptr a, mpz_srcptr b) { r->v = v_wide(a->v - b->v); }
VINL void mpz_add_ui(mpz_ptr r, mpz_srcptr a, unsigned long b) { r->v = v_wide(a->v + (VMPZ_T)b); }
VINL void mpz_sub_ui(mpz_ptr r, mpz_srcptr a, unsigned long b) { r->v = v_wide(a->v - (VMPZ_T)b); }
VINL void mpz_mul(mpz_ptr r, mpz_srcptr a, mpz_srcptr b) { r->v = (VMPZ_T)((long)v_narrow(a->v) * (long)v_narrow(b->v)); }
VINL void mpz_neg(mpz_ptr r, mpz_srcptr a) { r->v = -a->v; }
VINL void mpz_tdiv_q(mpz_ptr r, mpz_srcptr a, mpz_srcptr b) { if (b->v == 0) v_model_div0(); r->v = (VMPZ_T)(v_narrow(a->v) / v_narrow(b->v)); }
VINL void mpz_tdiv_r(mpz_ptr r, mpz_srcptr a, mpz_srcptr b) { if (b->v == 0) v_model_div0(); r->v = (VMPZ_T)(v_narrow(a->v) % v_narrow(b->v)); }
VINL void mpz_and(mpz_ptr r, mpz_srcptr a, mpz_srcptr b) { r->v = a->v & b->v; }
VINL void mpz_ior(mpz_ptr r, mpz_srcptr a, mpz_srcptr b) { r->v = a->v | b->v; }
VINL void mpz_xor(mpz_ptr r, mpz_srcptr a, mpz_srcptr b) { r->v = a->v ^ b->v; }
/* low word of |a| */
VINL unsigned long mpz_get_ui(mpz_srcptr a) { return (unsigned long)(a->v < 0 ? -a->v : a->v); }
VINL long mpz_get_si(mpz_srcptr a) { return (long)a->v; }
VINL int mpz_fits_sint_p(mpz_srcptr a) { return a->v >= -2147483648L && a->v <= 2147483647L; }
VINL int mpz_fits_slong_p(mpz_srcptr a) { return a->v >= -(((VMPZ_T)1) << 63) && a->v <= ((((VMPZ_T)1) << 63) - 1); }
VINL void mpz_mul_2exp(mpz_ptr r, mpz_srcptr a, mp_bitcnt_t k) { if (k > 30) v_model_range(); r->v = v_wide(a->v * ((VMPZ_T)1 << k)); }
/* floor division by 2^k */
VINL void mpz_fdiv_q_2exp(mpz_ptr r, mpz_srcptr a, mp_bitcnt_t k) { r->v = (k >= 126) ? (a->v < 0 ? -1 : 0) : (a->v >> k); }
/* one 8-byte word, native endianness (the only way lib/bignums.cpp uses them for 64-bit values) */
VINL void mpz_import(mpz_ptr r, size_t count, int order, size_t size, int endian, size_t nails, const void *op) {
  if (count != 1 || size != 8) v_model_range();
  r->v = (VMPZ_T)(*(const unsigned long *)op);
}
VINL void *mpz_export(void *rop, size_t *countp, int order, size_t size, int endian, size_t nails, mpz_srcptr a) {
  if (size != 8 || rop == 0) v_model_range();
  VMPZ_T m = a->v < 0 ? -a->v : a->v;
  if (m >> 64) v_model_range();
  if (m != 0) *(unsigned long *)rop = (unsigned long)m;
  if (countp) *countp = (m != 0);
  return rop;
}
/* remaining entry points: declared only (unused by the units verified here) */
int mpz_init_set_str(mpz_ptr, const char *, int);
char *mpz_get_str(char *, int, mpz_srcptr);
void mp_get_memory_functions(void *(**)(size_t), void *(**)(void *, size_t, size_t), void (**)(void *, size_t));
typedef struct { __mpz_struct _mp_num; __mpz_struct _mp_den; } __mpq_struct;
typedef __mpq_struct mpq_t[1];
typedef __mpq_struct *mpq_ptr;
typedef const __mpq_struct *mpq_srcptr;
#define mpq_numref(Q) (&((Q)->_mp_num))
#define mpq_denref(Q) (&((Q)->_mp_den))
void mpq_init(mpq_ptr); void mpq_clear(mpq_ptr); void mpq_set(mpq_ptr, mpq_srcptr); void mpq_set_z(mpq_ptr, mpz_srcptr);
void mpq_set_d(mpq_ptr, double); int mpq_set_str(mpq_ptr, const char *, int); void mpq_canonicalize(mpq_ptr);
int mpq_cmp(mpq_srcptr, mpq_srcptr); void mpq_add(mpq_ptr, mpq_srcptr, mpq_srcptr); void mpq_sub(mpq_ptr, mpq_srcptr, mpq_srcptr);
void mpq_mul(mpq_ptr, mpq_srcptr, mpq_srcptr); void mpq_div(mpq_ptr, mpq_srcptr, mpq_srcptr); void mpq_neg(mpq_ptr, mpq_srcptr);
void mpq_mul_2exp(mpq_ptr, mpq_srcptr, mp_bitcnt_t); double mpq_get_d(mpq_srcptr); char *mpq_get_str(char *, int, mpq_srcptr);
#ifdef __cplusplus
}
#endif
#endif
