#!/usr/bin/env python3
"""Replace the bodies of selected void functions in textual IR by 'ret void' (documented model: no deallocation)."""
import re, sys
pat = re.compile(sys.argv[2])
out = []; skipping = False
for ln in open(sys.argv[1]):
    if skipping:
        if ln.startswith('}'):
            skipping = False; out.append(ln)
        continue
    if ln.startswith('define ') and ' void @' in ln:
        m = re.search(r'@("?[^"( ]+"?)\(', ln)
        if m and pat.search(m.group(1)):
            ln2 = re.sub(r'\)(?:\s+(?:#\d+|unnamed_addr|local_unnamed_addr|comdat(?:\([^)]*\))?|align \d+|personality .*?))*\s*\{\s*$', ') {\n', ln)   # drop attributes/personality/comdat
            out.append(ln2); out.append('  ret void\n'); skipping = True; continue
    out.append(ln)
open(sys.argv[1], 'w').write(''.join(out))
