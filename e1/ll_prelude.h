#include <stdint.h>
#include <stddef.h>
#include <string.h>
#include <stdlib.h>
#define ll_malloc malloc
#define ll_free free
#define ll_memcpy memcpy
#define ll_memset memset
#define ll_memmove memmove
#define ll_strlen strlen
#define ll_strcmp strcmp_model
#define ll_memcmp memcmp
#define ll_realloc realloc
void ll_exit(uint32_t);
#undef ll_memcpy
#undef ll_memmove
static inline void ll_memcpy(void *d, const void *s, uint64_t n) { for (uint64_t i = 0; i < n; i++) ((char*)d)[i] = ((const char*)s)[i]; }
static inline void ll_memmove(void *d, const void *s, uint64_t n) { if ((char*)d <= (const char*)s) for (uint64_t i = 0; i < n; i++) ((char*)d)[i] = ((const char*)s)[i]; else for (uint64_t i = n; i > 0; i--) ((char*)d)[i-1] = ((const char*)s)[i-1]; }
static inline uint64_t ll_ctpop64(uint64_t x) { return (uint64_t)__builtin_popcountll(x); }
static inline uint32_t ll_ctpop32(uint32_t x) { return (uint32_t)__builtin_popcount(x); }
static inline uint32_t ll_memcmp_(uint8_t *a, uint8_t *b, uint64_t n) { for (uint64_t i = 0; i < n; i++) if (a[i] != b[i]) return a[i] < b[i] ? (uint32_t)-1 : 1; return 0; }
#undef ll_memcmp
#define ll_memcmp ll_memcmp_
static inline uint64_t ll_strlen_(uint8_t *a) { uint64_t n = 0; while (a[n]) n++; return n; }
#undef ll_strlen
#define ll_strlen ll_strlen_
static inline uint64_t ll_ctlz64(uint64_t x) { return x ? (uint64_t)__builtin_clzll(x) : 64; }
static inline uint64_t ll_cttz64(uint64_t x) { return x ? (uint64_t)__builtin_ctzll(x) : 64; }

/* fixed-size byte blocks: constant-size memcpy is lowered to an assignment of these */
struct ll_bytes_1 { uint8_t b[1]; };
struct ll_bytes_2 { uint8_t b[2]; };
struct ll_bytes_3 { uint8_t b[3]; };
struct ll_bytes_4 { uint8_t b[4]; };
struct ll_bytes_5 { uint8_t b[5]; };
struct ll_bytes_6 { uint8_t b[6]; };
struct ll_bytes_7 { uint8_t b[7]; };
struct ll_bytes_8 { uint8_t b[8]; };
struct ll_bytes_9 { uint8_t b[9]; };
struct ll_bytes_10 { uint8_t b[10]; };
struct ll_bytes_11 { uint8_t b[11]; };
struct ll_bytes_12 { uint8_t b[12]; };
struct ll_bytes_13 { uint8_t b[13]; };
struct ll_bytes_14 { uint8_t b[14]; };
struct ll_bytes_15 { uint8_t b[15]; };
struct ll_bytes_16 { uint8_t b[16]; };
struct ll_bytes_17 { uint8_t b[17]; };
struct ll_bytes_18 { uint8_t b[18]; };
struct ll_bytes_19 { uint8_t b[19]; };
struct ll_bytes_20 { uint8_t b[20]; };
struct ll_bytes_21 { uint8_t b[21]; };
struct ll_bytes_22 { uint8_t b[22]; };
struct ll_bytes_23 { uint8_t b[23]; };
struct ll_bytes_24 { uint8_t b[24]; };
struct ll_bytes_25 { uint8_t b[25]; };
struct ll_bytes_26 { uint8_t b[26]; };
struct ll_bytes_27 { uint8_t b[27]; };
struct ll_bytes_28 { uint8_t b[28]; };
struct ll_bytes_29 { uint8_t b[29]; };
struct ll_bytes_30 { uint8_t b[30]; };
struct ll_bytes_31 { uint8_t b[31]; };
struct ll_bytes_32 { uint8_t b[32]; };
struct ll_bytes_33 { uint8_t b[33]; };
struct ll_bytes_34 { uint8_t b[34]; };
struct ll_bytes_35 { uint8_t b[35]; };
struct ll_bytes_36 { uint8_t b[36]; };
struct ll_bytes_37 { uint8_t b[37]; };
struct ll_bytes_38 { uint8_t b[38]; };
struct ll_bytes_39 { uint8_t b[39]; };
struct ll_bytes_40 { uint8_t b[40]; };
struct ll_bytes_41 { uint8_t b[41]; };
struct ll_bytes_42 { uint8_t b[42]; };
struct ll_bytes_43 { uint8_t b[43]; };
struct ll_bytes_44 { uint8_t b[44]; };
struct ll_bytes_45 { uint8_t b[45]; };
struct ll_bytes_46 { uint8_t b[46]; };
struct ll_bytes_47 { uint8_t b[47]; };
struct ll_bytes_48 { uint8_t b[48]; };
struct ll_bytes_49 { uint8_t b[49]; };
struct ll_bytes_50 { uint8_t b[50]; };
struct ll_bytes_51 { uint8_t b[51]; };
struct ll_bytes_52 { uint8_t b[52]; };
struct ll_bytes_53 { uint8_t b[53]; };
struct ll_bytes_54 { uint8_t b[54]; };
struct ll_bytes_55 { uint8_t b[55]; };
struct ll_bytes_56 { uint8_t b[56]; };
struct ll_bytes_57 { uint8_t b[57]; };
struct ll_bytes_58 { uint8_t b[58]; };
struct ll_bytes_59 { uint8_t b[59]; };
struct ll_bytes_60 { uint8_t b[60]; };
struct ll_bytes_61 { uint8_t b[61]; };
struct ll_bytes_62 { uint8_t b[62]; };
struct ll_bytes_63 { uint8_t b[63]; };
struct ll_bytes_64 { uint8_t b[64]; };
struct ll_bytes_65 { uint8_t b[65]; };
struct ll_bytes_66 { uint8_t b[66]; };
struct ll_bytes_67 { uint8_t b[67]; };
struct ll_bytes_68 { uint8_t b[68]; };
struct ll_bytes_69 { uint8_t b[69]; };
struct ll_bytes_70 { uint8_t b[70]; };
struct ll_bytes_71 { uint8_t b[71]; };
struct ll_bytes_72 { uint8_t b[72]; };
struct ll_bytes_73 { uint8_t b[73]; };
struct ll_bytes_74 { uint8_t b[74]; };
struct ll_bytes_75 { uint8_t b[75]; };
struct ll_bytes_76 { uint8_t b[76]; };
struct ll_bytes_77 { uint8_t b[77]; };
struct ll_bytes_78 { uint8_t b[78]; };
struct ll_bytes_79 { uint8_t b[79]; };
struct ll_bytes_80 { uint8_t b[80]; };
struct ll_bytes_81 { uint8_t b[81]; };
struct ll_bytes_82 { uint8_t b[82]; };
struct ll_bytes_83 { uint8_t b[83]; };
struct ll_bytes_84 { uint8_t b[84]; };
struct ll_bytes_85 { uint8_t b[85]; };
struct ll_bytes_86 { uint8_t b[86]; };
struct ll_bytes_87 { uint8_t b[87]; };
struct ll_bytes_88 { uint8_t b[88]; };
struct ll_bytes_89 { uint8_t b[89]; };
struct ll_bytes_90 { uint8_t b[90]; };
struct ll_bytes_91 { uint8_t b[91]; };
struct ll_bytes_92 { uint8_t b[92]; };
struct ll_bytes_93 { uint8_t b[93]; };
struct ll_bytes_94 { uint8_t b[94]; };
struct ll_bytes_95 { uint8_t b[95]; };
struct ll_bytes_96 { uint8_t b[96]; };
struct ll_bytes_97 { uint8_t b[97]; };
struct ll_bytes_98 { uint8_t b[98]; };
struct ll_bytes_99 { uint8_t b[99]; };
struct ll_bytes_100 { uint8_t b[100]; };
struct ll_bytes_101 { uint8_t b[101]; };
struct ll_bytes_102 { uint8_t b[102]; };
struct ll_bytes_103 { uint8_t b[103]; };
struct ll_bytes_104 { uint8_t b[104]; };
struct ll_bytes_105 { uint8_t b[105]; };
struct ll_bytes_106 { uint8_t b[106]; };
struct ll_bytes_107 { uint8_t b[107]; };
struct ll_bytes_108 { uint8_t b[108]; };
struct ll_bytes_109 { uint8_t b[109]; };
struct ll_bytes_110 { uint8_t b[110]; };
struct ll_bytes_111 { uint8_t b[111]; };
struct ll_bytes_112 { uint8_t b[112]; };
struct ll_bytes_113 { uint8_t b[113]; };
struct ll_bytes_114 { uint8_t b[114]; };
struct ll_bytes_115 { uint8_t b[115]; };
struct ll_bytes_116 { uint8_t b[116]; };
struct ll_bytes_117 { uint8_t b[117]; };
struct ll_bytes_118 { uint8_t b[118]; };
struct ll_bytes_119 { uint8_t b[119]; };
struct ll_bytes_120 { uint8_t b[120]; };
struct ll_bytes_121 { uint8_t b[121]; };
struct ll_bytes_122 { uint8_t b[122]; };
struct ll_bytes_123 { uint8_t b[123]; };
struct ll_bytes_124 { uint8_t b[124]; };
struct ll_bytes_125 { uint8_t b[125]; };
struct ll_bytes_126 { uint8_t b[126]; };
struct ll_bytes_127 { uint8_t b[127]; };
struct ll_bytes_128 { uint8_t b[128]; };
struct ll_bytes_129 { uint8_t b[129]; };
struct ll_bytes_130 { uint8_t b[130]; };
struct ll_bytes_131 { uint8_t b[131]; };
struct ll_bytes_132 { uint8_t b[132]; };
struct ll_bytes_133 { uint8_t b[133]; };
struct ll_bytes_134 { uint8_t b[134]; };
struct ll_bytes_135 { uint8_t b[135]; };
struct ll_bytes_136 { uint8_t b[136]; };
struct ll_bytes_137 { uint8_t b[137]; };
struct ll_bytes_138 { uint8_t b[138]; };
struct ll_bytes_139 { uint8_t b[139]; };
struct ll_bytes_140 { uint8_t b[140]; };
struct ll_bytes_141 { uint8_t b[141]; };
struct ll_bytes_142 { uint8_t b[142]; };
struct ll_bytes_143 { uint8_t b[143]; };
struct ll_bytes_144 { uint8_t b[144]; };
struct ll_bytes_145 { uint8_t b[145]; };
struct ll_bytes_146 { uint8_t b[146]; };
struct ll_bytes_147 { uint8_t b[147]; };
struct ll_bytes_148 { uint8_t b[148]; };
struct ll_bytes_149 { uint8_t b[149]; };
struct ll_bytes_150 { uint8_t b[150]; };
struct ll_bytes_151 { uint8_t b[151]; };
struct ll_bytes_152 { uint8_t b[152]; };
struct ll_bytes_153 { uint8_t b[153]; };
struct ll_bytes_154 { uint8_t b[154]; };
struct ll_bytes_155 { uint8_t b[155]; };
struct ll_bytes_156 { uint8_t b[156]; };
struct ll_bytes_157 { uint8_t b[157]; };
struct ll_bytes_158 { uint8_t b[158]; };
struct ll_bytes_159 { uint8_t b[159]; };
struct ll_bytes_160 { uint8_t b[160]; };
struct ll_bytes_161 { uint8_t b[161]; };
struct ll_bytes_162 { uint8_t b[162]; };
struct ll_bytes_163 { uint8_t b[163]; };
struct ll_bytes_164 { uint8_t b[164]; };
struct ll_bytes_165 { uint8_t b[165]; };
struct ll_bytes_166 { uint8_t b[166]; };
struct ll_bytes_167 { uint8_t b[167]; };
struct ll_bytes_168 { uint8_t b[168]; };
struct ll_bytes_169 { uint8_t b[169]; };
struct ll_bytes_170 { uint8_t b[170]; };
struct ll_bytes_171 { uint8_t b[171]; };
struct ll_bytes_172 { uint8_t b[172]; };
struct ll_bytes_173 { uint8_t b[173]; };
struct ll_bytes_174 { uint8_t b[174]; };
struct ll_bytes_175 { uint8_t b[175]; };
struct ll_bytes_176 { uint8_t b[176]; };
struct ll_bytes_177 { uint8_t b[177]; };
struct ll_bytes_178 { uint8_t b[178]; };
struct ll_bytes_179 { uint8_t b[179]; };
struct ll_bytes_180 { uint8_t b[180]; };
struct ll_bytes_181 { uint8_t b[181]; };
struct ll_bytes_182 { uint8_t b[182]; };
struct ll_bytes_183 { uint8_t b[183]; };
struct ll_bytes_184 { uint8_t b[184]; };
struct ll_bytes_185 { uint8_t b[185]; };
struct ll_bytes_186 { uint8_t b[186]; };
struct ll_bytes_187 { uint8_t b[187]; };
struct ll_bytes_188 { uint8_t b[188]; };
struct ll_bytes_189 { uint8_t b[189]; };
struct ll_bytes_190 { uint8_t b[190]; };
struct ll_bytes_191 { uint8_t b[191]; };
struct ll_bytes_192 { uint8_t b[192]; };
struct ll_bytes_193 { uint8_t b[193]; };
struct ll_bytes_194 { uint8_t b[194]; };
struct ll_bytes_195 { uint8_t b[195]; };
struct ll_bytes_196 { uint8_t b[196]; };
struct ll_bytes_197 { uint8_t b[197]; };
struct ll_bytes_198 { uint8_t b[198]; };
struct ll_bytes_199 { uint8_t b[199]; };
struct ll_bytes_200 { uint8_t b[200]; };
struct ll_bytes_201 { uint8_t b[201]; };
struct ll_bytes_202 { uint8_t b[202]; };
struct ll_bytes_203 { uint8_t b[203]; };
struct ll_bytes_204 { uint8_t b[204]; };
struct ll_bytes_205 { uint8_t b[205]; };
struct ll_bytes_206 { uint8_t b[206]; };
struct ll_bytes_207 { uint8_t b[207]; };
struct ll_bytes_208 { uint8_t b[208]; };
struct ll_bytes_209 { uint8_t b[209]; };
struct ll_bytes_210 { uint8_t b[210]; };
struct ll_bytes_211 { uint8_t b[211]; };
struct ll_bytes_212 { uint8_t b[212]; };
struct ll_bytes_213 { uint8_t b[213]; };
struct ll_bytes_214 { uint8_t b[214]; };
struct ll_bytes_215 { uint8_t b[215]; };
struct ll_bytes_216 { uint8_t b[216]; };
struct ll_bytes_217 { uint8_t b[217]; };
struct ll_bytes_218 { uint8_t b[218]; };
struct ll_bytes_219 { uint8_t b[219]; };
struct ll_bytes_220 { uint8_t b[220]; };
struct ll_bytes_221 { uint8_t b[221]; };
struct ll_bytes_222 { uint8_t b[222]; };
struct ll_bytes_223 { uint8_t b[223]; };
struct ll_bytes_224 { uint8_t b[224]; };
struct ll_bytes_225 { uint8_t b[225]; };
struct ll_bytes_226 { uint8_t b[226]; };
struct ll_bytes_227 { uint8_t b[227]; };
struct ll_bytes_228 { uint8_t b[228]; };
struct ll_bytes_229 { uint8_t b[229]; };
struct ll_bytes_230 { uint8_t b[230]; };
struct ll_bytes_231 { uint8_t b[231]; };
struct ll_bytes_232 { uint8_t b[232]; };
struct ll_bytes_233 { uint8_t b[233]; };
struct ll_bytes_234 { uint8_t b[234]; };
struct ll_bytes_235 { uint8_t b[235]; };
struct ll_bytes_236 { uint8_t b[236]; };
struct ll_bytes_237 { uint8_t b[237]; };
struct ll_bytes_238 { uint8_t b[238]; };
struct ll_bytes_239 { uint8_t b[239]; };
struct ll_bytes_240 { uint8_t b[240]; };
struct ll_bytes_241 { uint8_t b[241]; };
struct ll_bytes_242 { uint8_t b[242]; };
struct ll_bytes_243 { uint8_t b[243]; };
struct ll_bytes_244 { uint8_t b[244]; };
struct ll_bytes_245 { uint8_t b[245]; };
struct ll_bytes_246 { uint8_t b[246]; };
struct ll_bytes_247 { uint8_t b[247]; };
struct ll_bytes_248 { uint8_t b[248]; };
struct ll_bytes_249 { uint8_t b[249]; };
struct ll_bytes_250 { uint8_t b[250]; };
struct ll_bytes_251 { uint8_t b[251]; };
struct ll_bytes_252 { uint8_t b[252]; };
struct ll_bytes_253 { uint8_t b[253]; };
struct ll_bytes_254 { uint8_t b[254]; };
struct ll_bytes_255 { uint8_t b[255]; };
struct ll_bytes_256 { uint8_t b[256]; };
