/* CBMC side of the harness interface: nondeterministic inputs (logged, so that a trace shows them
   in order), assumptions, assertions; environment models: exit / crab::errs() end the path. */
#include <assert.h>
#include <stdint.h>
long nondet_long(void);
int nondet_int(void);
unsigned long nondet_ulong(void);
long ND_LOG[64];
unsigned ND_N = 0;
static void nd_log(long v) { if (ND_N < 64) ND_LOG[ND_N] = v; ND_N++; }
uint64_t nd_long(void) { long v = nondet_long(); nd_log(v); return (uint64_t)v; }
uint32_t nd_int(void) { int v = nondet_int(); nd_log(v); return (uint32_t)v; }
uint64_t nd_ulong(void) { unsigned long v = nondet_ulong(); nd_log((long)v); return v; }
void v_assume(uint8_t c) { __CPROVER_assume(c); }
void v_assert(uint8_t c, uint32_t id) {
#ifdef WITNESS
  assert(0);
#else
  assert(c);
#endif
}
void ll_exit(uint32_t c) { __CPROVER_assume(0); }
void v_model_range(void) { __CPROVER_assert(0, "gmp-model: value leaves the model range"); __CPROVER_assume(0); }
void v_model_div0(void) { __CPROVER_assert(0, "gmp-model: division by zero"); __CPROVER_assume(0); }
void *_ZN4crab4errsEv(void) { __CPROVER_assume(0); return 0; }
