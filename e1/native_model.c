/* Native side of the harness interface (translation validation and counterexample replay):
   nd_* values come from a seeded generator (or from a replay vector), v_assert outcomes are logged.
   Usage:  prog <nvectors> <seed>   |   prog replay <file-with-values> */
#include <setjmp.h>
#include <stdint.h>
#include <stdio.h>
#include <stdlib.h>
#include <string.h>
#ifdef __cplusplus
extern "C" {
#define BOOL bool
#define U64 long
#define U64U unsigned long
#define I32 int
#else
#define BOOL uint8_t
#define U64 uint64_t
#define U64U uint64_t
#define I32 uint32_t
#endif
void ENTRY(void);
static jmp_buf jb;
static uint64_t st;
static long rvec[256];
static int rn = 0, rpos = 0, replay = 0;
static int nfail, nassert;
static char logbuf[4096];
static uint64_t rnd(void) { st ^= st << 13; st ^= st >> 7; st ^= st << 17; return st; }
/* values biased towards the interesting corners */
static uint64_t pick(void) {
  if (replay) return rpos < rn ? (uint64_t)rvec[rpos++] : 0;
  uint64_t r = rnd();
  switch (r % 12) {
  case 0: case 1: case 2: return rnd() % 5;  /* tiny (kinds, small widths) */
  case 3: case 4: return rnd() % 17;
  case 5: return rnd() % 70;                 /* small (widths, shift amounts) */
  case 6: return (uint64_t)(-(int64_t)(rnd() % 70));
  case 7: return 1ULL << (rnd() % 64);
  case 8: return (1ULL << (rnd() % 64)) - 1;
  case 9: return ~(rnd() % 1000);
  case 10: return rnd() >> (rnd() % 64);
  default: return rnd();
  }
}
U64 nd_long(void) { return (U64)pick(); }
I32 nd_int(void) { return (I32)pick(); }
U64U nd_ulong(void) { return (U64U)pick(); }
void v_assume(BOOL c) { if (!c) longjmp(jb, 1); }
void v_assert(BOOL c, I32 id) {
  nassert++;
  if (!c) { nfail++; char t[32]; snprintf(t, sizeof t, " FAIL#%d", (int)id); if (strlen(logbuf) < 4000) strcat(logbuf, t); }
}
void ll_exit(uint32_t c) { longjmp(jb, 2); }
#ifndef __cplusplus
void __CPROVER_assume(int c) { if (!c) longjmp(jb, 1); }
void v_model_range(void) { longjmp(jb, 3); }
void v_model_div0(void) { longjmp(jb, 3); }
/* only reached on CRAB_ERROR paths (message formatting) of GMP-model units */
static void ll_free_(void *p, size_t n) { (void)n; free(p); }
char *mpz_get_str(char *b, int base, const void *z) { (void)b; (void)base; (void)z; char *r = (char *)malloc(2); r[0] = '?'; r[1] = 0; return r; }
void mp_get_memory_functions(void *(**a)(size_t), void *(**r)(void *, size_t, size_t), void (**f)(void *, size_t)) { if (a) *a = 0; if (r) *r = 0; if (f) *f = ll_free_; }
#endif
#ifdef __cplusplus
/* CRAB_ERROR calls std::exit: linked with -Wl,--wrap=exit so that the vector ends instead */
void __wrap_exit(int c) { (void)c; longjmp(jb, 2); }
}
#endif
int main(int argc, char **argv) {
  if (argc >= 3 && !strcmp(argv[1], "replay")) {
    FILE *f = fopen(argv[2], "r");
    long v;
    while (f && fscanf(f, "%ld", &v) == 1 && rn < 256) rvec[rn++] = v;
    replay = 1;
    logbuf[0] = 0;
    int j = setjmp(jb);
    if (j == 0) {
#ifdef __cplusplus
      try { ENTRY(); } catch (...) { j = 2; }
#else
      ENTRY();
#endif
    }
    printf("replay asserts=%d%s%s\n", nassert, logbuf, j == 1 ? " (assumption false)" : "");
    return 0;
  }
  int n = argc > 1 ? atoi(argv[1]) : 100;
  uint64_t seed = argc > 2 ? strtoull(argv[2], 0, 10) : 1;
  int done = 0;
  for (int i = 0; done < n && i < 5000 * n; i++) {
    st = seed * 0x9E3779B97F4A7C15ULL + (uint64_t)i * 0xD1B54A32D192ED03ULL + 1;
    nassert = nfail = 0;
    logbuf[0] = 0;
    int j = setjmp(jb);
    if (j == 0) {
#ifdef __cplusplus
      try { ENTRY(); } catch (...) { j = 2; } /* library objects end a CRAB_ERROR path with an exception */
#else
      ENTRY();
#endif
    }
    if (j == 1) continue; /* assumption violated: vector not admissible */
    if (j == 3) { printf("vec %d MODELRANGE\n", i); done++; continue; }
    printf("vec %d asserts=%d%s%s\n", i, nassert, logbuf, j == 2 ? " exit" : "");
    done++;
  }
  return 0;
}
