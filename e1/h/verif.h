#pragma once
extern "C" {
long nd_long(void);
int nd_int(void);
unsigned long nd_ulong(void);
void v_assume(bool c);
void v_assert(bool c, int id);
}
