// E1 harnesses for the parts of lib/wrapint.cpp that go through ikos::z_number (C13, clause 1):
// conversions to and from big integers (all widths, all values) and signed division/remainder
// (width bounded by the divider).  z_number runs over the inline GMP model of e1/stub/gmp.h.
#include "verif.h"
#include <crab/numbers/wrapint.hpp>
using namespace crab;
using ikos::z_number;
static inline uint64_t msk(uint64_t w) { return w == 64 ? ~0UL : ((1UL << w) - 1); }
static uint64_t ndw(uint64_t maxw = 64) {
  uint64_t w = nd_ulong();
  v_assume(w >= 1 && w <= maxw);
  return w;
}
static inline int64_t sval(uint64_t x, uint64_t w) {
  bool neg = (x >> (w - 1)) & 1;
  return (int64_t)(neg ? (x | ~msk(w)) : x);
}
extern "C" void h_wb_to_bignum() { // unsigned and signed readings of the bit pattern
  uint64_t w = ndw();
  wrapint a(nd_ulong(), w);
  uint64_t x = a.get_uint64_t();
  z_number u = a.get_unsigned_bignum();
  v_assert(u == z_number::from_uint64(x), 1);
  v_assert(u >= z_number(0), 2);
  z_number s = a.get_signed_bignum();
  v_assert(s.fits_int64(), 3);
  v_assert((int64_t)s == sval(x, w), 4);
}
extern "C" void h_wb_from_bignum() { // wrapint(z_number, w) reduces the integer modulo 2^w
  uint64_t w = ndw();
  int64_t n = (int64_t)nd_long();
  wrapint a(z_number(n), w);
  v_assert(a.get_uint64_t() == (((uint64_t)n) & msk(w)), 1);
  v_assert(a.get_bitwidth() == w, 2);
  v_assert(wrapint::fits_wrapint(z_number(n), w), 3);
  // round trip of the signed reading
  wrapint b(a.get_signed_bignum(), w);
  v_assert(b.get_uint64_t() == a.get_uint64_t(), 4);
}
#ifndef DIVW
#define DIVW 8
#endif
extern "C" void h_wb_sdiv() { // signed division / remainder: truncation, modulo 2^w (INT_MIN / -1 wraps)
  uint64_t w = ndw(DIVW);
  wrapint a(nd_ulong(), w), b(nd_ulong(), w);
  v_assume(!b.is_zero());
  int64_t x = sval(a.get_uint64_t(), w), y = sval(b.get_uint64_t(), w);
  v_assert(a.sdiv(b).get_uint64_t() == (((uint64_t)(x / y)) & msk(w)), 1);
  v_assert(a.srem(b).get_uint64_t() == (((uint64_t)(x % y)) & msk(w)), 2);
  v_assert((a / b).get_uint64_t() == a.sdiv(b).get_uint64_t() && (a % b).get_uint64_t() == a.srem(b).get_uint64_t(), 3);
}
