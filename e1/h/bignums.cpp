// E1 harnesses for the GMP wrappers of lib/bignums.cpp (C20): ikos::z_number over the inline GMP
// model of e1/stub/gmp.h (128-bit exact add/sub/compare/bitwise, 32-bit mul/div with operands
// range-asserted).  Conversions are checked over the FULL 64-bit range.
#include "verif.h"
#include <crab/numbers/bignums.hpp>
using ikos::z_number;
#ifndef BN_R
#define BN_R 128 /* operand range of the division/multiplication harnesses */
#endif
static int64_t small() {
  int64_t x = (int64_t)nd_long();
  v_assume(x >= -BN_R && x <= BN_R);
  return x;
}
extern "C" void h_bn_int64_roundtrip() { // z_number(int64) / operator int64_t / fits_int64, all 2^64 values
  int64_t n = (int64_t)nd_long();
  z_number z(n);
  v_assert(z.fits_int64(), 1);
  v_assert((int64_t)z == n, 2);
  z_number m(-n); // (wraps for INT64_MIN at the C++ level, like the caller would)
  v_assert(n == INT64_MIN || (int64_t)(-z) == -n, 3);
}
extern "C" void h_bn_uint64() { // from_uint64: values above INT64_MAX do not fit int64 and compare correctly
  uint64_t n = nd_ulong();
  z_number z = z_number::from_uint64(n);
  v_assert(z >= z_number(0), 1);
  v_assert(z.fits_int64() == (n <= (uint64_t)INT64_MAX), 2);
  if (n <= (uint64_t)INT64_MAX) v_assert((int64_t)z == (int64_t)n, 3);
  else v_assert(z > z_number(INT64_MAX), 4);
  uint64_t m = nd_ulong();
  z_number y = z_number::from_uint64(m);
  v_assert((z < y) == (n < m) && (z == y) == (n == m), 5);
}
extern "C" void h_bn_cmp_add() { // order and additive arithmetic against int64 (no overflow in range)
  int64_t a = (int64_t)nd_long(), b = (int64_t)nd_long();
  v_assume(a >= -(1L << 61) && a <= (1L << 61) && b >= -(1L << 61) && b <= (1L << 61));
  z_number x(a), y(b);
  v_assert((x < y) == (a < b) && (x <= y) == (a <= b) && (x > y) == (a > b) && (x >= y) == (a >= b) && (x == y) == (a == b) && (x != y) == (a != b), 1);
  v_assert((int64_t)(x + y) == a + b, 2);
  v_assert((int64_t)(x - y) == a - b, 3);
  v_assert((int64_t)(-x) == -a, 4);
  z_number c(x);
  c += y;
  v_assert((int64_t)c == a + b, 5);
  c -= y;
  v_assert((int64_t)c == a, 6);
  ++c;
  v_assert((int64_t)c == a + 1, 7);
  --c; --c;
  v_assert((int64_t)c == a - 1, 8);
  z_number d = c++;
  v_assert((int64_t)d == a - 1 && (int64_t)c == a, 9);
  d = c--;
  v_assert((int64_t)d == a && (int64_t)c == a - 1, 10);
}
extern "C" void h_bn_beyond64() { // sums beyond 64 bits keep their mathematical meaning
  int64_t a = (int64_t)nd_long(), b = (int64_t)nd_long();
  z_number x(a), y(b);
  z_number s = x + y;
  __int128 wide = (__int128)a + (__int128)b;
  bool fits = wide >= (__int128)INT64_MIN && wide <= (__int128)INT64_MAX;
  v_assert(s.fits_int64() == fits, 1);
  v_assert((s - y) == x, 2);
  if (!fits && a > 0) v_assert(s > z_number(INT64_MAX), 3);
  if (!fits && a < 0) v_assert(s < z_number(INT64_MIN), 4);
}
extern "C" void h_bn_muldiv() { // truncating division, sign of the remainder, multiplication
  int64_t a = small(), b = small();
  z_number x(a), y(b);
  v_assert((int64_t)(x * y) == a * b, 1);
  z_number c(x);
  c *= y;
  v_assert((int64_t)c == a * b, 2);
  v_assume(b != 0);
  v_assert((int64_t)(x / y) == a / b, 3); // C++ '/' truncates towards zero
  v_assert((int64_t)(x % y) == a % b, 4); // remainder has the sign of the dividend
  z_number d(x);
  d /= y;
  v_assert((int64_t)d == a / b, 5);
  d = x;
  d %= y;
  v_assert((int64_t)d == a % b, 6);
  v_assert((x / y) * y + (x % y) == x, 7);
}
extern "C" void h_bn_bitwise() { // infinite-precision two's complement
  int64_t a = (int64_t)nd_long(), b = (int64_t)nd_long();
  z_number x(a), y(b);
  v_assert((int64_t)(x & y) == (a & b), 1);
  v_assert((int64_t)(x | y) == (a | b), 2);
  v_assert((int64_t)(x ^ y) == (a ^ b), 3);
}
extern "C" void h_bn_shift() { // << multiplies by 2^k, >> is the floor division by 2^k (k >= 0)
  int64_t a = (int64_t)nd_long();
  v_assume(a >= -(1L << 30) && a <= (1L << 30));
  int64_t k = (int64_t)nd_long();
  v_assume(k >= 0 && k <= 30);
  z_number x(a), kk(k);
  v_assert((int64_t)(x << kk) == a * (1L << k), 1);
  int64_t fl = a >= 0 ? a / (1L << k) : -((-a + (1L << k) - 1) / (1L << k));
  v_assert((int64_t)(x >> kk) == fl, 2);
}
extern "C" void h_bn_fill_ones() { // smallest 2^k - 1 >= x for x >= 0
  int64_t a = (int64_t)nd_long();
  v_assume(a >= 0 && a <= 1000);
  z_number x(a);
  int64_t r = (int64_t)x.fill_ones();
  v_assert(r >= a, 1);
  v_assert(((r + 1) & r) == 0, 2);        // r = 2^k - 1
  v_assert(a == 0 ? r == 0 : r / 2 < a, 3); // the smallest such
}
