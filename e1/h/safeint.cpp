// E1 harnesses for lib/safeint.cpp (C20): checked 64-bit weights never wrap silently.
// An operation either ends in CRAB_ERROR (exit: modelled as the end of the path) or returns the
// mathematically exact result, for ALL 64-bit operands (add/sub/neg), and for the stated operand
// classes for mul/div (multiplier/divider width).
#include "verif.h"
#include <crab/numbers/safeint.hpp>
using crab::safe_i64;
typedef __int128 wide;
extern "C" void h_si_add() {
  int64_t a = (int64_t)nd_long(), b = (int64_t)nd_long();
  safe_i64 r = safe_i64(a) + safe_i64(b);
  v_assert((wide)(int64_t)r == (wide)a + (wide)b, 1);
  safe_i64 c(a);
  c += safe_i64(b);
  v_assert((wide)(int64_t)c == (wide)a + (wide)b, 2);
}
extern "C" void h_si_sub() {
  int64_t a = (int64_t)nd_long(), b = (int64_t)nd_long();
  safe_i64 r = safe_i64(a) - safe_i64(b);
  v_assert((wide)(int64_t)r == (wide)a - (wide)b, 1);
  safe_i64 c(a);
  c -= safe_i64(b);
  v_assert((wide)(int64_t)c == (wide)a - (wide)b, 2);
  safe_i64 n = -safe_i64(a);
  v_assert((wide)(int64_t)n == -(wide)a, 3);
}
extern "C" void h_si_noerr() { // no spurious error: in-range results are returned (the error path is not taken)
  int64_t a = (int64_t)nd_long(), b = (int64_t)nd_long();
  v_assume(a >= -(1L << 62) && a < (1L << 62) && b >= -(1L << 62) && b < (1L << 62));
  safe_i64 r = safe_i64(a) + safe_i64(b); // must not exit: a marker assertion after it must be reachable
  v_assert((int64_t)r == a + b, 1);
}
extern "C" void h_si_cmp() {
  int64_t a = (int64_t)nd_long(), b = (int64_t)nd_long();
  safe_i64 x(a), y(b);
  v_assert((x == y) == (a == b) && (x != y) == (a != b) && (x < y) == (a < b) && (x <= y) == (a <= b) && (x > y) == (a > b) && (x >= y) == (a >= b), 1);
  v_assert((int64_t)x == a, 2);
}
#ifndef MB
#define MB 12 /* bits of the narrow multiplication operand */
#endif
extern "C" void h_si_mul() { // one operand arbitrary, the other within +-2^MB
  int64_t a = (int64_t)nd_long(), b = (int64_t)nd_long();
  v_assume(b >= -(1L << MB) && b <= (1L << MB));
  safe_i64 r = safe_i64(a) * safe_i64(b);
  v_assert((wide)(int64_t)r == (wide)a * (wide)b, 1);
  safe_i64 s = safe_i64(b) * safe_i64(a);
  v_assert((wide)(int64_t)s == (wide)a * (wide)b, 2);
}
extern "C" void h_si_div() { // divisor within +-2^MB, non-zero; INT64_MIN / -1 must not come back as a value
  int64_t a = (int64_t)nd_long(), b = (int64_t)nd_long();
  v_assume(b != 0 && b >= -(1L << MB) && b <= (1L << MB));
  safe_i64 r = safe_i64(a) / safe_i64(b);
  v_assert((wide)(int64_t)r == (wide)a / (wide)b, 1);
}
