// E1 harnesses for lib/wrapint.cpp (C13, clause 1): every public operation of crab::wrapint against
// an independent bit-vector reference, for ALL widths 1..64 and ALL operand values (nondeterministic
// 64-bit inputs), except where a multiplier/divider bounds the width (stated per harness).
// Preconditions assumed (documented API contract): equal widths, shift amount < width, divisor != 0.
#include "verif.h"
#include <crab/numbers/wrapint.hpp>
using namespace crab;
static inline uint64_t msk(uint64_t w) { return w == 64 ? ~0UL : ((1UL << w) - 1); }
static wrapint mkw(uint64_t w) {
  uint64_t n = nd_ulong();
  return wrapint(n, w);
}
static uint64_t ndw(uint64_t maxw = 64) {
  uint64_t w = nd_ulong();
  v_assume(w >= 1 && w <= maxw);
  return w;
}
// value of a w-bit pattern as a signed 64-bit integer
static inline int64_t sval(uint64_t x, uint64_t w) {
  bool neg = (x >> (w - 1)) & 1;
  return (int64_t)(neg ? (x | ~msk(w)) : x);
}

extern "C" void h_wi_ctor() { // construction reduces modulo 2^w; accessors
  uint64_t w = ndw();
  uint64_t n = nd_ulong();
  wrapint a(n, w);
  v_assert(a.get_uint64_t() == (n & msk(w)), 1);
  v_assert(a.get_bitwidth() == w, 2);
  v_assert(a.is_zero() == ((n & msk(w)) == 0), 3);
  v_assert(a.msb() == (((n & msk(w)) >> (w - 1)) & 1), 4);
  v_assert(wrapint::get_unsigned_max(w).get_uint64_t() == msk(w), 5);
  v_assert(wrapint::get_unsigned_min(w).get_uint64_t() == 0, 6);
  v_assert(wrapint::get_signed_max(w).get_uint64_t() == (msk(w) >> 1), 7);
  v_assert(wrapint::get_signed_min(w).get_uint64_t() == (1UL << (w - 1)), 8);
}
extern "C" void h_wi_add() {
  uint64_t w = ndw();
  wrapint a = mkw(w), b = mkw(w);
  wrapint r = a + b;
  v_assert(r.get_uint64_t() == ((a.get_uint64_t() + b.get_uint64_t()) & msk(w)), 1);
  wrapint s = a - b;
  v_assert(s.get_uint64_t() == ((a.get_uint64_t() - b.get_uint64_t()) & msk(w)), 2);
  wrapint n = -a;
  v_assert(n.get_uint64_t() == ((0 - a.get_uint64_t()) & msk(w)), 3);
  v_assert(r.get_bitwidth() == w && s.get_bitwidth() == w && n.get_bitwidth() == w, 4);
}
extern "C" void h_wi_addeq() { // compound assignment and increments
  uint64_t w = ndw();
  wrapint a = mkw(w), b = mkw(w);
  uint64_t x = a.get_uint64_t(), y = b.get_uint64_t();
  wrapint c = a;
  c += b;
  v_assert(c.get_uint64_t() == ((x + y) & msk(w)), 1);
  c = a;
  c -= b;
  v_assert(c.get_uint64_t() == ((x - y) & msk(w)), 2);
  c = a;
  ++c;
  v_assert(c.get_uint64_t() == ((x + 1) & msk(w)), 3);
  c = a;
  --c;
  v_assert(c.get_uint64_t() == ((x - 1) & msk(w)), 4);
  c = a;
  wrapint d = c++;
  v_assert(d.get_uint64_t() == x && c.get_uint64_t() == ((x + 1) & msk(w)), 5);
  c = a;
  d = c--;
  v_assert(d.get_uint64_t() == x && c.get_uint64_t() == ((x - 1) & msk(w)), 6);
}
extern "C" void h_wi_cmp() { // comparisons are unsigned comparisons of the bit patterns
  uint64_t w = ndw();
  wrapint a = mkw(w), b = mkw(w);
  uint64_t x = a.get_uint64_t(), y = b.get_uint64_t();
  v_assert((a == b) == (x == y), 1);
  v_assert((a != b) == (x != y), 2);
  v_assert((a < b) == (x < y), 3);
  v_assert((a <= b) == (x <= y), 4);
  v_assert((a > b) == (x > y), 5);
  v_assert((a >= b) == (x >= y), 6);
}
extern "C" void h_wi_bitwise() {
  uint64_t w = ndw();
  wrapint a = mkw(w), b = mkw(w);
  uint64_t x = a.get_uint64_t(), y = b.get_uint64_t();
  v_assert((a & b).get_uint64_t() == (x & y), 1);
  v_assert((a | b).get_uint64_t() == (x | y), 2);
  v_assert((a ^ b).get_uint64_t() == (x ^ y), 3);
  v_assert((a & b).get_bitwidth() == w, 4);
}
extern "C" void h_wi_ashr() {
  uint64_t w = ndw();
  wrapint a = mkw(w);
  uint64_t k = nd_ulong();
  v_assume(k < w);
  wrapint kk(k, w);
  wrapint r = a.ashr(kk);
  uint64_t e = ((uint64_t)(sval(a.get_uint64_t(), w) >> k)) & msk(w);
  v_assert(r.get_uint64_t() == e, 1);
  v_assert(r.get_bitwidth() == w, 2);
}
extern "C" void h_wi_shl() {
  uint64_t w = ndw();
  wrapint a = mkw(w);
  uint64_t k = nd_ulong();
  v_assume(k < w);
  wrapint kk(k, w);
  wrapint r = a << kk;
  v_assert(r.get_uint64_t() == ((a.get_uint64_t() << k) & msk(w)), 1);
  wrapint l = a.lshr(kk);
  v_assert(l.get_uint64_t() == (a.get_uint64_t() >> k), 2);
}
extern "C" void h_wi_ext() {
  uint64_t w = ndw();
  wrapint a = mkw(w);
  uint64_t add = nd_ulong();
  v_assume(add >= 1 && add <= 64 - w);
  wrapint r = a.sext(add);
  uint64_t x = a.get_uint64_t();
  v_assert(r.get_bitwidth() == w + add && r.get_uint64_t() == (((uint64_t)sval(x, w)) & msk(w + add)), 1);
  wrapint z = a.zext(add);
  v_assert(z.get_uint64_t() == x && z.get_bitwidth() == w + add, 2);
}
extern "C" void h_wi_trunc() { // keep_lower(k): the k lower bits, width k
  uint64_t w = ndw();
  wrapint a = mkw(w);
  uint64_t k = nd_ulong();
  v_assume(k >= 1 && k <= 64);
  wrapint r = a.keep_lower(k);
  if (k >= w) v_assert(r.get_bitwidth() == w && r.get_uint64_t() == a.get_uint64_t(), 1);
  else v_assert(r.get_bitwidth() == k && r.get_uint64_t() == (a.get_uint64_t() & msk(k)), 2);
}
#ifndef MULW
#define MULW 16
#endif
extern "C" void h_wi_mul() { // width bounded by the multiplier
  uint64_t w = ndw(MULW);
  wrapint a = mkw(w), b = mkw(w);
  wrapint r = a * b;
  v_assert(r.get_uint64_t() == ((a.get_uint64_t() * b.get_uint64_t()) & msk(w)), 1);
  wrapint c = a;
  c *= b;
  v_assert(c.get_uint64_t() == r.get_uint64_t(), 2);
}
extern "C" void h_wi_udiv() { // width bounded by the divider
  uint64_t w = ndw(MULW);
  wrapint a = mkw(w), b = mkw(w);
  v_assume(!b.is_zero());
  uint64_t x = a.get_uint64_t(), y = b.get_uint64_t();
  v_assert(a.udiv(b).get_uint64_t() == x / y, 1);
  v_assert(a.urem(b).get_uint64_t() == x % y, 2);
}
