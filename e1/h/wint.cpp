// E1 harnesses for crab::domains::wrapped_interval<z_number> (C13, clause 2): every bit-vector
// result of operands drawn from the argument intervals lies in the result interval.
// Membership is the real at(wrapint) AND an independent modular-distance predicate.
// Width is a compile-time bound (WW) because the operations loop / split over the circle.
#include "verif.h"
#include <crab/domains/wrapped_interval.hpp>
using namespace crab;
using namespace crab::domains;
typedef wrapped_interval<ikos::z_number> wi_t;
#ifndef WW
#define WW 4
#endif
static inline uint64_t msk(uint64_t w) { return w == 64 ? ~0UL : ((1UL << w) - 1); }
static uint64_t ndw() {
#ifdef FIXW
  return FIXW; /* one concrete width per job */
#endif
  uint64_t w = nd_ulong();
  v_assume(w >= 1 && w <= WW);
  return w;
}
// x in [[s,e]]_w  iff  (x - s) mod 2^w <= (e - s) mod 2^w
static bool ref_mem(uint64_t x, uint64_t s, uint64_t e, uint64_t w) { return ((x - s) & msk(w)) <= ((e - s) & msk(w)); }
struct opnd {
  wi_t i;
  uint64_t v; // a member
};
static opnd mk(uint64_t w) {
  uint64_t kind = nd_ulong();
  v_assume(kind <= 2);
  uint64_t v = nd_ulong() & msk(w);
  if (kind == 0) { // top
    wi_t t = wi_t::top();
    // top has no width: build the full circle of width w instead
    wi_t f(wrapint(0, w), wrapint(msk(w), w));
    return opnd{f, v};
  }
  uint64_t s = nd_ulong() & msk(w), e = nd_ulong() & msk(w);
  wi_t i(wrapint(s, w), wrapint(e, w));
  v_assume(ref_mem(v, s, e, w));
  v_assert(i.at(wrapint(v, w)), 100); // the real membership agrees with the reference on the member
  return opnd{i, v};
}
static void covered(const wi_t &r, uint64_t v, uint64_t w, int id) {
  if (r.is_top()) return;
  v_assert(!r.is_bottom(), id);
  v_assert(r.at(wrapint(v & msk(w), w)), id + 1);
  v_assert(ref_mem(v & msk(w), r.start().get_uint64_t(), r.end().get_uint64_t(), w), id + 2);
}
extern "C" void h_wint_add() {
  uint64_t w = ndw();
  opnd a = mk(w), b = mk(w);
  covered(a.i + b.i, a.v + b.v, w, 1);
  covered(a.i - b.i, a.v - b.v, w, 4);
  covered(-a.i, 0 - a.v, w, 7);
}
extern "C" void h_wint_lattice() {
  uint64_t w = ndw();
  opnd a = mk(w), b = mk(w);
  wi_t j = a.i | b.i;
  covered(j, a.v, w, 1);
  covered(j, b.v, w, 4);
  if (w > 1) { // widening is defined for widths > 1 (assert in operator||)
    wi_t wd = a.i || b.i;
    covered(wd, a.v, w, 7);
    covered(wd, b.v, w, 10);
  }
  if (a.v == b.v) covered(a.i & b.i, a.v, w, 13);
  if (a.i <= b.i) covered(b.i, a.v, w, 16);
}
extern "C" void h_wint_mul() {
  uint64_t w = ndw();
  opnd a = mk(w), b = mk(w);
  covered(a.i * b.i, a.v * b.v, w, 1);
}
extern "C" void h_wint_bitwise() {
  uint64_t w = ndw();
  opnd a = mk(w), b = mk(w);
  covered(a.i.And(b.i), a.v & b.v, w, 1);
  covered(a.i.Or(b.i), a.v | b.v, w, 4);
  covered(a.i.Xor(b.i), a.v ^ b.v, w, 7);
}
extern "C" void h_wint_div() {
  uint64_t w = ndw();
  opnd a = mk(w), b = mk(w);
  v_assume(b.v != 0);
  covered(a.i.UDiv(b.i), a.v / b.v, w, 1);
  covered(a.i.URem(b.i), a.v % b.v, w, 4);
  bool na = (a.v >> (w - 1)) & 1, nb = (b.v >> (w - 1)) & 1;
  int64_t x = (int64_t)(na ? (a.v | ~msk(w)) : a.v), y = (int64_t)(nb ? (b.v | ~msk(w)) : b.v);
  covered(a.i.SDiv(b.i), (uint64_t)(x / y), w, 7);
  covered(a.i.SRem(b.i), (uint64_t)(x % y), w, 10);
}
extern "C" void h_wint_shift() {
  uint64_t w = ndw();
  opnd a = mk(w);
  uint64_t k = nd_ulong();
  v_assume(k < w);
  wi_t kk(wrapint(k, w));
  covered(a.i.Shl(kk), a.v << k, w, 1);
  covered(a.i.LShr(kk), a.v >> k, w, 4);
  bool na = (a.v >> (w - 1)) & 1;
  int64_t x = (int64_t)(na ? (a.v | ~msk(w)) : a.v);
  covered(a.i.AShr(kk), (uint64_t)(x >> k), w, 7);
}
extern "C" void h_wint_cast() {
  uint64_t w = ndw();
  opnd a = mk(w);
  uint64_t k = nd_ulong();
  v_assume(k >= 1 && k < w);
  covered(a.i.Trunc(k), a.v, k, 1);
  uint64_t add = nd_ulong();
  v_assume(add >= 1 && add <= 3);
  covered(a.i.ZExt(add), a.v, w + add, 4);
  bool na = (a.v >> (w - 1)) & 1;
  covered(a.i.SExt(add), na ? (a.v | ~msk(w)) : a.v, w + add, 7);
}

#ifndef TK
#define TK 2
#endif
extern "C" void h_wint_trunc() { // Trunc alone, concrete source width (FIXW) and target width (TK)
  uint64_t w = ndw();
  opnd a = mk(w);
  v_assume(TK < w);
  covered(a.i.Trunc(TK), a.v, TK, 1);
}
extern "C" void h_wint_zext() {
  uint64_t w = ndw();
  opnd a = mk(w);
  covered(a.i.ZExt(TK), a.v, w + TK, 1);
}
extern "C" void h_wint_sext() {
  uint64_t w = ndw();
  opnd a = mk(w);
  bool na = (a.v >> (w - 1)) & 1;
  covered(a.i.SExt(TK), na ? (a.v | ~msk(w)) : a.v, w + TK, 1);
}
