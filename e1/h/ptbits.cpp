// E1 harnesses for the bit kernels of big-endian patricia trees (C19): arbitrary 64-bit key indices.
// compute_branching_bit / highest_bit / mask / match_prefix / zero_bit of patricia_trees.hpp and the
// routing invariant that node::lookup/find/insert rely on.
#include "verif.h"
#include <crab/domains/patricia_trees.hpp>
using namespace ikos;
using namespace ikos::patricia_trees_impl;
extern "C" void h_pt_bits() {
  index_t p0 = nd_ulong(), p1 = nd_ulong();
  v_assume(p0 != p1);
  index_t m = compute_branching_bit(p0, 0, p1, 0);
  v_assert(m != 0 && (m & (m - 1)) == 0, 1);       // a power of two
  v_assert(((p0 ^ p1) & m) != 0, 2);                // the keys differ at bit m
  v_assert(((p0 ^ p1) & ~(m | (m - 1))) == 0, 3);   // and agree on every higher bit
  v_assert(mask(p0, m) == mask(p1, m), 4);          // same prefix
  v_assert(match_prefix(p0, mask(p0, m), m) && match_prefix(p1, mask(p0, m), m), 5);
  v_assert(zero_bit(p0, m) != zero_bit(p1, m), 6);  // they go to different branches
  // routing used by lookup/find: for keys that match the prefix, key <= prefix <=> zero_bit(key, m)
  v_assert((p0 <= mask(p0, m)) == zero_bit(p0, m), 7);
  v_assert((p1 <= mask(p0, m)) == zero_bit(p1, m), 8);
}
extern "C" void h_pt_nested() { // branching bit of two sub-trees: above both of their own branching bits
  index_t p0 = nd_ulong(), p1 = nd_ulong(), m0 = nd_ulong(), m1 = nd_ulong();
  v_assume(m0 != 0 && (m0 & (m0 - 1)) == 0 && m1 != 0 && (m1 & (m1 - 1)) == 0);
  v_assume(m0 < (1UL << 62) && m1 < (1UL << 62));
  v_assume(p0 == mask(p0, m0) && p1 == mask(p1, m1)); // canonical prefixes
  v_assume(!match_prefix(p0, p1, m1) && !match_prefix(p1, p0, m0)); // disjoint prefixes
  v_assume(((p0 ^ p1) & ~(2 * (m0 > m1 ? m0 : m1) - 1)) != 0);     // they differ above both bits
  index_t m = compute_branching_bit(p0, m0, p1, m1);
  v_assert(m != 0 && (m & (m - 1)) == 0, 1);
  v_assert(m > m0 && m > m1, 2);
  v_assert(((p0 ^ p1) & m) != 0, 3);
  v_assert(mask(p0, m) == mask(p1, m), 4);
  v_assert(match_prefix(p0, mask(p0, m), m) && match_prefix(p1, mask(p0, m), m), 5);
}
extern "C" void h_pt_prefix() { // match_prefix(k, p, m) <=> k agrees with p above bit m
  index_t k = nd_ulong(), p = nd_ulong(), m = nd_ulong();
  v_assume(m != 0 && (m & (m - 1)) == 0);
  v_assume(p == mask(p, m));
  bool agree = ((k ^ p) & ~(m | (m - 1))) == 0;
  v_assert(match_prefix(k, p, m) == agree, 1);
  v_assert(mask(mask(k, m), m) == mask(k, m), 2);
}
