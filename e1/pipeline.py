"""Engine E1: clang++-14 -> LLVM IR -> (e1/ll2c.py) C -> CBMC 6.11.

For code that is NOT generic in the number type (lib/wrapint.cpp, lib/safeint.cpp, the GMP
wrappers of lib/bignums.cpp over an inline GMP model, patricia bit kernels, finite lattices).
Every run: translate from /repo's current sources, validate the generated C against a native
g++ build of the same harness with the real libraries on random vectors, check a vacuity
witness, then decide with CBMC (unwinding assertions on).
"""
import hashlib, json, os, re, subprocess, time

HERE = os.path.dirname(os.path.abspath(__file__))
REPO = os.environ.get("VERIF_REPO", "/repo")
CLANG = "clang++-14"


def sh(cmd, timeout=None, **kw):
    try:
        return subprocess.run(cmd, stdout=subprocess.PIPE, stderr=subprocess.STDOUT, text=True, timeout=timeout, **kw)
    except subprocess.TimeoutExpired as e:
        class R:
            returncode = -9
            stdout = "TIMEOUT"
        return R()


def cxxflags(build, gmp_model, extra=()):
    f = ["-std=c++17", "-fno-exceptions", "-fno-vectorize", "-fno-slp-vectorize", "-fno-unroll-loops", "-DNDEBUG", "-w"]
    if gmp_model:
        f += ["-I" + os.path.join(HERE, "stub")]
    f += ["-I" + build.inc, "-I" + os.path.join(REPO, "include"), "-I" + os.path.join(HERE, "h")]
    return f + list(extra)


def translate(build, unit, entries, libs, gmp_model, wd, defines=()):
    """harness e1/h/<unit>.cpp (+ /repo/lib/<libs>.cpp) -> reduced IR -> C.  Returns path of the C file."""
    src = os.path.join(HERE, "h", unit + ".cpp")
    base = os.path.join(wd, unit)
    fl = cxxflags(build, gmp_model, ["-D" + d for d in defines])
    lls = []
    for s, o in [(src, base + ".ll")] + [(os.path.join(REPO, "lib", l + ".cpp"), os.path.join(wd, "lib_%s.ll" % l)) for l in libs]:
        r = sh([CLANG] + fl + ["-O1", "-Xclang", "-disable-llvm-passes", "-S", "-emit-llvm", s, "-o", o])
        if r.returncode != 0:
            raise RuntimeError("clang failed on %s:\n%s" % (s, r.stdout[-3000:]))
        lls.append(o)
    r = sh(["llvm-link-14", "-S"] + lls + ["-o", base + ".all.ll"])
    if r.returncode != 0:
        raise RuntimeError("llvm-link failed: " + r.stdout[-2000:])
    # statistics calls (string concatenation in every operation) are deleted: declared readnone
    txt = open(base + ".all.ll").read()
    txt = re.sub(r"(?m)^(declare .*@_ZN4crab(?:9CrabStats|15ScopedCrabStats)[^\n]*\)) (?:unnamed_addr )?#\d+$", r"\1 readnone willreturn nounwind", txt)
    open(base + ".all.ll", "w").write(txt)
    sh(["python3", os.path.join(HERE, "stubfn.py"), base + ".all.ll", r"_Sp_counted_base.*(_M_releaseEv|_M_release_last_useEv|_M_release_last_use_coldEv)$"])
    r = sh(["opt-14", "-S", "-internalize", "-internalize-public-api-list=" + ",".join(entries), "-globaldce", base + ".all.ll", "-o", base + ".int.ll"])
    if r.returncode != 0:
        raise RuntimeError("opt internalize failed: " + r.stdout[-2000:])
    r = sh(["opt-14", "-S", "-O2", "-inline-threshold=2000", "-vectorize-loops=false", "-vectorize-slp=false", "-unroll-threshold=0", base + ".int.ll", "-o", base + ".red.ll"])
    if r.returncode != 0:
        raise RuntimeError("opt -O2 failed: " + r.stdout[-2000:])
    r = sh(["python3", os.path.join(HERE, "ll2c.py"), base + ".red.ll", base + ".c"])
    if r.returncode != 0 or not os.path.exists(base + ".c"):
        raise RuntimeError("ll2c failed: " + r.stdout[-3000:])
    # functions that are part of the encoding: everything reachable from the entry before inlining
    defs = re.findall(r"(?m)^define [^@]*@\"?([^\s(\"]+)\"?\(", open(base + ".int.ll").read())
    return base + ".c", defs


def demangle(names):
    r = subprocess.run(["c++filt"], input="\n".join(names), stdout=subprocess.PIPE, text=True)
    return r.stdout.splitlines()


def native_validate(build, unit, entry, libs, cfile, wd, nvec, seed, defines=()):
    """generated C (gcc) vs native g++ build with the real libraries: identical v_assert outcome logs"""
    drv = os.path.join(HERE, "native_model.c")
    a = os.path.join(wd, "%s_gen_%s" % (unit, entry))
    b = os.path.join(wd, "%s_nat_%s" % (unit, entry))
    # the generated C is compiled by gcc and linked (g++) with the real library objects for whatever stayed external
    r = sh(["gcc", "-O1", "-w", "-fwrapv", "-I" + HERE, "-c", cfile, "-o", a + ".o"])
    if r.returncode == 0:
        r = sh(["gcc", "-O1", "-w", "-I" + HERE, "-DENTRY=" + entry, "-c", drv, "-o", a + "_drv.o"])
    if r.returncode == 0:
        r = sh(["g++", a + ".o", a + "_drv.o", build.lib("conc"), "-lgmp", "-o", a])
    if r.returncode != 0:
        return None, "gcc of generated C failed: " + r.stdout[-1500:]
    src = os.path.join(HERE, "h", unit + ".cpp")
    fl = ["-std=c++17", "-O1", "-w", "-I" + build.inc, "-I" + os.path.join(REPO, "include"), "-I" + os.path.join(HERE, "h")] + ["-D" + d for d in defines]
    r = sh(["g++"] + fl + ["-DENTRY=" + entry, src, "-x", "c++", drv, "-x", "none", build.lib("conc"), "-lgmp", "-Wl,--wrap=exit", "-o", b])
    if r.returncode != 0:
        return None, "native g++ build failed: " + r.stdout[-1500:]
    ra = sh([a, str(nvec), str(seed)], timeout=300)
    rb = sh([b, str(nvec), str(seed)], timeout=300)
    if ra.returncode != 0 or rb.returncode != 0:
        return None, "validation run failed rc=%s/%s %s %s" % (ra.returncode, rb.returncode, ra.stdout[-300:], rb.stdout[-300:])
    la = {l.split()[1]: l for l in ra.stdout.splitlines() if l.startswith("vec")}
    lb = {l.split()[1]: l for l in rb.stdout.splitlines() if l.startswith("vec")}
    compared = 0
    for i, x in la.items():
        if "MODELRANGE" in x:
            continue  # the value left the GMP model's range: the generated C stops there
        if i not in lb:
            continue  # the native run reached its quota of admissible vectors earlier
        compared += 1
        if lb[i] != x:
            return None, "generated C and native build disagree on vector %s: '%s' vs '%s'" % (i, x, lb[i])
    if compared < 20:
        return None, "too few comparable vectors (%d)" % compared
    nfail = sum(1 for l in rb.stdout.splitlines() if " FAIL" in l)
    return (compared, nfail), None


def cbmc(cfile, entry, unwind, timeout, wd, witness=False, trace=False):
    model = os.path.join(HERE, "cbmc_model.c")
    cmd = ["cbmc", cfile, model, "-I", HERE, "--function", entry, "--unwind", str(unwind), "--unwinding-assertions", "--no-malloc-may-fail", "--drop-unused-functions",
           "--no-standard-checks", "--external-sat-solver", "kissat"]
    if witness:
        cmd += ["-DWITNESS"]
    if trace:
        cmd += ["--trace"]
    t0 = time.time()
    r = sh(cmd, timeout=timeout)
    return r.stdout, time.time() - t0, cmd


def run(build, job, workdir):
    """returns {"job","status": ok|violation|broken, "why", "replay", "summary"}"""
    t0 = time.time()
    wd = os.path.join(workdir, "e1_" + hashlib.sha1(job.name.encode()).hexdigest()[:10])
    os.makedirs(wd, exist_ok=True)
    summ = {"job": job.name, "what": job.what, "engine": "E1", "exhaustive": False}
    res = {"job": job, "status": "broken", "why": "", "replay": None, "summary": summ}
    libs = list(job.args.get("libs", []))
    gmp_model = bool(job.args.get("gmp_model", False))
    try:
        cfile, defs = translate(build, job.harness, [job.entry], libs, gmp_model, wd, job.defines)
    except RuntimeError as e:
        res["why"] = str(e)[:1500]
        return res
    dm = sorted(set(d for d in demangle(defs) if ("crab::" in d or "ikos::" in d) and "___print___" not in d and "crab_os" not in d))
    summ["functions_encoded"] = dm[:40]
    summ["ir_functions"] = len(defs)
    # 1. translation validation on random vectors (skipped for GMP-model units: the model is not GMP)
    if True:
        ok, err = native_validate(build, job.harness, job.entry, libs, cfile, wd, int(job.args.get("vectors", 300)), int(job.args.get("seed", 1)), job.defines)
        if err:
            res["why"] = "ENCODING-MISMATCH: " + err
            return res
        summ["validated_vectors"] = ok[0]
        summ["native_failures_on_random_vectors"] = ok[1]
        if ok[1] > 0:
            # the REAL code fails the harness assertion on a concrete vector: a violation whatever the solver says
            b = os.path.join(wd, "%s_nat_%s" % (job.harness, job.entry))
            rr = sh([b, str(int(job.args.get("vectors", 300))), str(int(job.args.get("seed", 1)))], timeout=300)
            bad = [l for l in rr.stdout.splitlines() if " FAIL" in l][:3]
            rp = os.path.join(os.path.dirname(HERE), "replays", "E1")
            os.makedirs(rp, exist_ok=True)
            rpf = os.path.join(rp, "%s-%s-native.json" % (job.harness, job.entry))
            json.dump({"engine": "E1", "harness": job.harness, "entry": job.entry, "failing_random_vectors": bad, "reproduced_on_native_build": True,
                       "how": "native build of e1/h/%s.cpp (real libraries): prog <nvec> <seed> prints the failing vectors" % job.harness}, open(rpf, "w"), indent=1)
            res["status"] = "violation"
            res["replay"] = rpf
            res["why"] = "native build of the harness fails on random vectors: %s" % bad
            return res
    # 2. vacuity witness: with -DWITNESS every v_assert is assert(0) and must be refuted
    out, dt, _ = cbmc(cfile, job.entry, job.unwind or 2, job.timeout, wd, witness=True)
    if "VERIFICATION FAILED" not in out:
        res["why"] = "BROKEN-HARNESS: vacuity witness not refuted (%s)" % out[-400:].replace("\n", " ")
        return res
    # 3. the decision
    out, dt, cmd = cbmc(cfile, job.entry, job.unwind or 2, job.timeout, wd)
    summ["solver_s"] = round(dt, 1)
    summ["wall_s"] = round(time.time() - t0, 1)
    m = re.search(r"\*\* (\d+) of (\d+) failed", out)
    vcc = re.search(r"Generated (\d+) VCC\(s\), (\d+) remaining", out)
    summ["vcc"] = int(vcc.group(2)) if vcc else 0
    if m:
        summ["properties_checked"] = int(m.group(2))
        summ["properties_proved"] = int(m.group(2)) - int(m.group(1))
    summ["sample"] = {"job": job.name, "cbmc": " ".join(os.path.basename(c) if c.startswith("/") else c for c in cmd[1:]), "result": "SUCCESSFUL" if "VERIFICATION SUCCESSFUL" in out else "not successful"}
    if "VERIFICATION SUCCESSFUL" in out:
        summ["exhaustive"] = True
        res["status"] = "ok"
        return res
    if "VERIFICATION FAILED" in out:
        failed = re.findall(r"\[([^\]]+)\] line \d+ ([^:]*): FAILURE", out)
        if any("unwinding" in f[0] or "unwind" in f[1] for f in failed):
            res["why"] = "NO-VERDICT: unwinding assertion failed (bound %s too small)" % job.unwind
            return res
        if any("gmp-model" in f[1] for f in failed):
            res["why"] = "NO-VERDICT: a value leaves the GMP model range: " + str(failed[:3])
            return res
        # counterexample: get the inputs from the trace and replay on the native build
        tout, _, _ = cbmc(cfile, job.entry, job.unwind or 2, job.timeout, wd, trace=True)
        last = {}
        for i, v in re.findall(r"(?m)^\s*ND_LOG\[(\d+)l?\]=(-?\d+)", tout):
            last[int(i)] = v
        nn = re.findall(r"(?m)^\s*ND_N=(\d+)", tout)
        nds = [last.get(i, "0") for i in range(int(nn[-1]) if nn else 0)]
        rp = os.path.join(os.path.dirname(HERE), "replays", job.pid if hasattr(job, "pid") else "E1")
        os.makedirs(rp, exist_ok=True)
        rpf = os.path.join(rp, "%s-%s-%s.json" % (job.harness, job.entry, hashlib.sha1(job.name.encode()).hexdigest()[:6]))
        confirmed = None
        if True:
            b = os.path.join(wd, "%s_nat_%s" % (job.harness, job.entry))
            vf = os.path.join(wd, "vec.txt")
            open(vf, "w").write(" ".join(nds))
            rr = sh([b, "replay", vf], timeout=60)
            confirmed = " FAIL" in rr.stdout
        json.dump({"engine": "E1", "harness": job.harness, "entry": job.entry, "nondet_inputs_in_order": nds, "failed": failed[:5],
                   "reproduced_on_native_build": confirmed, "how": "cbmc trace; native replay: e1 native build of the harness with `replay vec.txt`"}, open(rpf, "w"), indent=1)
        if confirmed is False:
            res["why"] = "ENCODING-MISMATCH: CBMC counterexample %s does not reproduce on the native build" % nds[:8]
            return res
        res["status"] = "violation"
        res["replay"] = rpf
        res["why"] = "%s fails for nondet inputs %s" % (failed[:2], nds[:10])
        return res
    res["why"] = "NO-VERDICT: " + out[-300:].replace("\n", " ")
    return res
