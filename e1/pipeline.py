def run(build, job, workdir):
    raise NotImplementedError
