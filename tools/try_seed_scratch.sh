#!/bin/bash
# try_seed_scratch.sh <seed-id> <property>: like try_seed.sh but on a scratch worktree of /repo (VERIF_REPO), so that
# /repo itself is never touched (usable while other checks run); the evidence goes to a scratch directory
S=$1; P=$2; shift 2
PATCH=/verif/seeded/$S/patch.diff; [ -f $PATCH ] || PATCH=/tmp/seed/$S/out/patch.diff
W=/tmp/seed/try-$S
rm -rf $W; git -C /repo worktree prune; git -C /repo worktree add --detach $W HEAD >/dev/null 2>&1 || { echo "worktree failed"; exit 2; }
git -C $W apply $PATCH || { echo "PATCH DOES NOT APPLY"; git -C /repo worktree remove --force $W; exit 3; }
mkdir -p /tmp/dbg/ev_try
VERIF_REPO=$W VERIF_EVIDENCE_DIR=/tmp/dbg/ev_try python3 /verif/run.py --property $P --tier quick "$@" > /tmp/dbg/try-$S-$P.log 2>&1; rc=$?
git -C /repo worktree remove --force $W; rm -rf $W
echo "seed=$S property=$P exit=$rc"; grep -E "^VIOLATION|^NO-VERDICT|^BROKEN" /tmp/dbg/try-$S-$P.log | head -3; grep -E "^  " /tmp/dbg/try-$S-$P.log | head -2 | cut -c1-300; tail -1 /tmp/dbg/try-$S-$P.log
