#!/usr/bin/env python3
import json, jsonschema, glob, sys
m=json.load(open('/verif/MANIFEST.json')); jsonschema.validate(m, json.load(open('/root/.vp/MANIFEST.schema.json')))
ids=[c['property_id'] for c in m['checks']]; na=[x['property_id'] for x in m.get('not_applicable',[])]
allp=[json.loads(l)['id'] for l in open('/verif/properties.jsonl')]
print("manifest ok; claimed", len(ids), "n/a", len(na), "unlisted", [p for p in allp if p not in ids and p not in na])
for f in sorted(glob.glob('/verif/evidence/*.json')):
    e=json.load(open(f)); jsonschema.validate(e, json.load(open('/root/.vp/EVIDENCE.schema.json'))); print("ok", f, e['tier'], e['wall_s'], e.get('violations'))
