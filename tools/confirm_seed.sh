#!/bin/bash
# confirm_seed.sh <ID><tag>   e.g. C08a : independently confirm a seeded change (in a fresh scratch worktree):
#  pristine lib: demo exits 0;  patched: everything compiles, the 120 tests pass, demo exits non-zero.
# Result is stored as /verif/seeded/<ID><tag>/ (patch.diff, demo.cpp, README.md, meta.json) when confirmed.
set -u
S=$1; B=/tmp/seed/$S; C=/tmp/seed/confirm-$S; OUT=$B/out; LOG=/tmp/seed/confirm-$S.log
exec > $LOG 2>&1
rm -rf $C; git -C /repo worktree prune; git -C /repo worktree add --detach $C HEAD >/dev/null 2>&1 || { echo "worktree failed"; exit 2; }
cd $C
cmake -G Ninja -B _build -DCRAB_ENABLE_TESTS=ON -DCMAKE_BUILD_TYPE=Release -DCMAKE_CXX_FLAGS="-Wno-error -O1 -g0" >/dev/null
cmake --build _build -j8 --target Crab >/dev/null 2>&1
g++ -std=c++17 -O1 -w -I include -I _build/include $OUT/demo.cpp _build/lib/libCrab.a -lgmp -o $C/demo0 && timeout 600 $C/demo0 > $C/demo0.out 2>&1; D0=$?
echo "demo on pristine: exit $D0"
git apply $OUT/patch.diff || git apply -3 $OUT/patch.diff || { echo "PATCH DOES NOT APPLY"; D1=x; }
git diff --stat
cmake --build _build -j8 -- -k 0 > build.log 2>&1
NF=$(grep -c "^FAILED" build.log)
echo "build failures: $NF (1 expected: wrapint)"; grep "^FAILED" build.log
ctest --test-dir _build -j8 --timeout 900 > test.log 2>&1
grep -E "tests passed|tests failed" test.log; grep -A4 "The following tests FAILED" test.log
PASS=$(grep -oE "[0-9]+ tests failed out of [0-9]+" test.log)
g++ -std=c++17 -O1 -w -I include -I _build/include $OUT/demo.cpp _build/lib/libCrab.a -lgmp -o $C/demo1 && timeout 600 $C/demo1 > $C/demo1.out 2>&1; D1=$?
echo "demo with patch: exit $D1"; tail -5 $C/demo1.out
OK=no
if [ "$D0" = 0 ] && [ "$D1" != 0 ] && [ "$D1" != x ] && [ "$NF" -le 1 ] && [ "$PASS" = "1 tests failed out of 121" ]; then OK=yes; fi
echo "CONFIRMED=$OK"
if [ $OK = yes ]; then
  mkdir -p /verif/seeded/$S; cp $OUT/patch.diff $OUT/demo.cpp /verif/seeded/$S/; cp $OUT/README.md /verif/seeded/$S/README.md 2>/dev/null
  tail -3 $C/demo1.out > /verif/seeded/$S/demo_output_with_patch.txt
fi
cd /; git -C /repo worktree remove --force $C; rm -rf $C
