#!/usr/bin/env python3
"""development aid: run dom harness sequences over several domains, print one line each"""
import sys, time, json, subprocess, concurrent.futures as cf
sys.path.insert(0,'/verif')
import run
doms=[int(x) for x in sys.argv[1].split(',')]
seqs=[a for a in sys.argv[2:] if ',' in a or '.' in a or '=' not in a]
sys_extra=[a for a in sys.argv[2:] if '=' in a and ',' not in a and '.' not in a]
budget=60
b=run.Build(); b.lib('sym')
def one(a):
    d,s=a
    exe=b.harness('dom','sym',('DOM=%d'%d,))
    t=time.time()
    try:
        r=subprocess.run([exe,"seq="+s]+sys_extra+['--budget',str(budget)],stdout=subprocess.PIPE,stderr=subprocess.PIPE,text=True,timeout=budget+60)
        res=run.parse_result(r.stdout)
    except subprocess.TimeoutExpired:
        res=None
    dt=time.time()-t
    if res is None: return "DOM=%2d %-50s NO RESULT %.0fs %s"%(d,s,dt, (r.stderr[-200:] if 'r' in dir() else ''))
    v=res['violations'][0] if res['violations'] else None
    return "DOM=%2d %-50s paths=%-6d ab=%-4d viol=%-4d %s %.1fs %s %s"%(d,s,res['paths'],res['aborted'],res['nviol'],'EXH' if res['exhaustive'] else 'NOV:'+res['no_verdict'],dt, json.dumps(res['abort_reasons']) if res['aborted'] else '', (v['label']+' '+json.dumps(v['model'])) if v else '')
with cf.ThreadPoolExecutor(16) as ex:
    for line in ex.map(one,[(d,s) for d in doms for s in seqs]): print(line, flush=True)
