#!/usr/bin/env python3
"""Create a scratch worktree for a seeding sub-agent and print its prompt (property text only)."""
import json, subprocess, sys, os
pid, tag = sys.argv[1], (sys.argv[2] if len(sys.argv) > 2 else "a")
hint = sys.argv[3] if len(sys.argv) > 3 else ""
prop = [json.loads(l) for l in open('/verif/properties.jsonl') if json.loads(l)['id'] == pid][0]
base = f"/tmp/seed/{pid}{tag}"
os.makedirs(base + "/out", exist_ok=True)
if not os.path.exists(base + "/wt"):
    subprocess.check_call(["git", "-C", "/repo", "worktree", "add", "--detach", base + "/wt", "HEAD"], stdout=subprocess.DEVNULL, stderr=subprocess.DEVNULL)
print(f"""You are helping to evaluate a verification effort for the open-source C++ static-analysis library seahorn/crab (abstract interpretation over its own CFG language CrabIR). You work ONLY inside your own scratch git worktree of the library at {base}/wt and write your deliverables to {base}/out/. Do NOT read, list or modify anything under /verif or /repo (other than through your worktree); everything you need is in your worktree.

Here is a semantic property of crab that is supposed to hold (JSON record; `anchors` tells you where in the code the mechanisms live):

{json.dumps(prop, indent=1)}

YOUR TASK: design a small, realistic change to crab's library source (files under include/ or lib/ of your worktree — never tests/) that BREAKS this property while the library still compiles and the existing test suite still passes. It should look like a plausible regression a maintainer could introduce (wrong sign case, off-by-one, dropped normalisation/closure step, swapped operands, a missing case in a condition, stale cache, an over-eager optimisation ...). IMPORTANT: it must be SUBTLE — it must need something specific to manifest (an unusual input or corner value, a multi-step sequence of operations, a particular configuration/parameter, or two cooperating sites that each look fine alone), not something that ordinary use would expose at once. {hint}

Then write a demonstration: a small standalone C++17 program (demo.cpp) using crab's public API that exits 0 on the unmodified tree and exits non-zero (printing what went wrong, i.e. the concrete counterexample to the property) with your change applied. The demonstration must show a real violation of the property as stated (e.g. a concrete value/state/execution that the property says must be covered but is not), not merely a changed printout.

How to build and test (no network; everything needed is installed):
  cd {base}/wt
  cmake -G Ninja -B _build -DCRAB_ENABLE_TESTS=ON -DCMAKE_BUILD_TYPE=Release -DCMAKE_CXX_FLAGS="-Wno-error -O1 -g0" > /dev/null
  cmake --build _build -j6 -- -k 0 > build.log 2>&1      # ~6-10 min. NOTE: the test target `wrapint` does not compile even on the pristine tree; that one failure is expected, ignore it.
  ctest --test-dir _build -j6 --timeout 900 > test.log 2>&1   # pristine: 120 of 121 pass, `wrapint` is "Not Run". With your change the same 120 must still pass.
  # demo (the library is _build/lib/libCrab.a; generated config header is in _build/include):
  g++ -std=c++17 -O1 -I include -I _build/include {base}/out/demo.cpp _build/lib/libCrab.a -lgmp -o /tmp/seed/{pid}{tag}/demo && /tmp/seed/{pid}{tag}/demo
Look at tests/ (e.g. tests/domains/*.cc, tests/common.hpp, tests/crab_lang.hpp, tests/crab_dom.hpp) for how the public API is used (variable factories, CFG construction, domain typedefs, analyzers).
Since crab is header-heavy, a header change rebuilds most tests: get your change right before the full rebuild; you may verify the demo first by rebuilding only the library (`cmake --build _build --target Crab`), then run the whole suite once at the end.

DELIVERABLES in {base}/out/ :
  patch.diff   — `git diff` of your worktree against HEAD (library files only; must apply with `git apply` to a pristine checkout)
  demo.cpp     — the demonstration (exit 0 without the patch, non-zero with it)
  README.md    — what the change is, which clause of the property it breaks, what is needed for it to manifest (the specific input/sequence/configuration), and the exact commands you ran with their results (test suite pass count with the patch; demo exit status with and without the patch)
When finished: delete your build directory ({base}/wt/_build) to free disk space, leave the worktree itself and {base}/out in place, and reply with a short summary (what you changed, what it needs to manifest, test-suite result, demo result). If after an honest effort you cannot find a change that keeps all 120 tests passing, say so and describe what you tried — do not weaken the requirements.""")
