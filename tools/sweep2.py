#!/usr/bin/env python3
"""development aid: time a list of histories (CORE or generated) on given domains"""
import sys, time, json, subprocess, random, concurrent.futures as cf
sys.path.insert(0,'/verif')
import run, gen
doms=[int(x) for x in sys.argv[1].split(',')]
what=sys.argv[2]; budget=int(sys.argv[3]) if len(sys.argv)>3 else 120
extra=sys.argv[4:]
if what=='core': seqs=gen.core()
else:
    n,seed,nsym=what.split(':'); seqs=[s for _,s in gen.histories(random.Random(int(seed)),int(n),int(nsym))]
b=run.Build(); b.lib('sym')
def one(a):
    d,s=a
    exe=b.harness('dom','sym',('DOM=%d'%d,))
    t=time.time()
    try:
        r=subprocess.run([exe,'seq='+s]+extra+['--budget',str(budget)],stdout=subprocess.PIPE,stderr=subprocess.PIPE,text=True,timeout=budget+60)
        res=run.parse_result(r.stdout)
    except subprocess.TimeoutExpired:
        res=None
    dt=time.time()-t
    if res is None: return "DOM=%2d %-60s NO RESULT %.0fs"%(d,s,dt)
    v=res['violations'][0] if res['violations'] else None
    return "DOM=%2d %-60s paths=%-6d ab=%-4d viol=%-4d %s %.1fs %s %s"%(d,s,res['paths'],res['aborted'],res['nviol'],'EXH' if res['exhaustive'] else 'NOV:'+res['no_verdict'],dt, json.dumps(res['abort_reasons']) if res['aborted'] else '', (v['label']+' '+json.dumps(v['model'])) if v else '')
t0=time.time()
with cf.ThreadPoolExecutor(16) as ex:
    for line in ex.map(one,[(d,s) for d in doms for s in seqs]): print(line, flush=True)
print("total wall %.0fs"%(time.time()-t0))
