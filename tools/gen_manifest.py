#!/usr/bin/env python3
"""Regenerate /verif/MANIFEST.json from props.py (claimed checks) and NA reasons."""
import json, sys
sys.path.insert(0, '/verif')
import props
allp = [json.loads(l)['id'] for l in open('/verif/properties.jsonl')]
TECH = "solver-based symbolic execution of the real code (z3-backed ikos::z_number, exhaustive path exploration, counterexample replay on the native GMP build)"
checks, na = [], []
for p in allp:
    s = props.PROPS.get(p)
    if s and s.get("claimed", True):
        checks.append({
            "property_id": p,
            "quick_cmd": "python3 run.py --property %s --tier quick" % p,
            "thorough_cmd": "python3 run.py --property %s --tier thorough" % p,
            "evidence_file": "evidence/%s.json" % p,
            "replay_cmd_template": "python3 run.py --replay {path}",
            "engine": s.get("engine", "E2"),
            "level_claimed": {"category": s.get("level", "model_checking"), "text": s.get("level_text", s.get("explanation", ""))[:900], "design_ref": "DESIGN.md §6 " + p},
            "level_note": s.get("level_note", "trusts z3 4.8.12 (and CBMC 6.11 + its SAT back end where E1 is used) for unsat answers; the symbolic number model and every encoding are validated on each run by replaying solver models on a native build of the real code; bounds and what lies outside them are in the evidence file"),
            "technique": s.get("technique", TECH),
        })
    else:
        na.append({"property_id": p, "reason": (s or {}).get("na_reason", props.NA.get(p, "no check registered yet (work in progress; see DESIGN.md §9 for the order of work)"))})
m = {
    "version": 1,
    "setup_cmd": "python3 -m py_compile run.py props.py e1/pipeline.py e1/ll2c.py",
    "hooks": {"guard": "CRAB_VERIF",
              "enable": "no source hooks exist: the checks compile /repo's headers and lib/*.cpp unmodified (engine E2 swaps crab/numbers/bignums.hpp through the include path; engine E1 works on the compiler's IR)",
              "baseline_off_cmd": "cmake --build /repo/_build -- -k 0 ; ctest --test-dir /repo/_build -j8 --timeout 900",
              "source_commits": [], "add_only": True},
    "engines": [
        {"name": "E2", "path": "sym/", "serves_properties": [c["property_id"] for c in checks if "E2" in c["engine"]],
         "kind_free_text": "solver-based symbolic execution of the real C++ templates: ikos::z_number is replaced through the include path by a z3-term class, every comparison forks under solver control, all decision sequences are explored, every assertion is decided by z3 for all values on the path; solver models are replayed on a native build with the real z_number/GMP"},
        {"name": "E1", "path": "e1/", "serves_properties": [c["property_id"] for c in checks if "E1" in c["engine"]],
         "kind_free_text": "bounded model checking of the compiled code: clang++-14 -> LLVM IR -> (own translator) C -> CBMC 6.11 with unwinding assertions, for kernels that are not generic in the number type"},
    ],
    "checks": checks,
    "notes": "Genuine defects found and repaired are listed in known_findings.json (fixed: entries) and DESIGN.md §8.",
    "not_applicable": na,
}
json.dump(m, open('/verif/MANIFEST.json', 'w'), indent=1)
print("claimed:", [c["property_id"] for c in checks])
print("n/a:", [x["property_id"] for x in na])
