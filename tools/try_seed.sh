#!/bin/bash
# try_seed.sh <seed-id> <property> [run.py extra args]: apply a seeded change to /repo, run the check, undo
S=$1; P=$2; shift 2
PATCH=/verif/seeded/$S/patch.diff; [ -f $PATCH ] || PATCH=/tmp/seed/$S/out/patch.diff
git -C /repo apply --check $PATCH || { echo "PATCH DOES NOT APPLY"; exit 3; }
git -C /repo apply $PATCH
python3 /verif/run.py --property $P --tier quick "$@" > /tmp/dbg/try-$S-$P.log 2>&1; rc=$?
git -C /repo checkout -- .
echo "seed=$S property=$P exit=$rc"; grep -E "^VIOLATION|^NO-VERDICT|^BROKEN" /tmp/dbg/try-$S-$P.log | head -3; grep -E "^  " /tmp/dbg/try-$S-$P.log | head -2 | cut -c1-300; tail -1 /tmp/dbg/try-$S-$P.log
