#!/bin/bash
# build /repo HEAD in a scratch worktree and run the pinned test suite (guard off: there are no hooks)
C=/tmp/seed/baseline; LOG=/tmp/seed/baseline.log
exec > $LOG 2>&1
rm -rf $C; git -C /repo worktree prune; git -C /repo worktree add --detach $C HEAD >/dev/null 2>&1
cd $C; git log --oneline | head -1
cmake -G Ninja -B _build -DCRAB_ENABLE_TESTS=ON -DCMAKE_BUILD_TYPE=Release -DCMAKE_CXX_FLAGS="-Wno-error -O1 -g0" >/dev/null
cmake --build _build -j10 -- -k 0 > build.log 2>&1
echo "build failures: $(grep -c '^FAILED' build.log)"; grep "^FAILED" build.log
ctest --test-dir _build -j8 --timeout 900 > test.log 2>&1
grep -E "tests passed|tests failed" test.log; grep -A6 "The following tests FAILED" test.log
cd /; git -C /repo worktree remove --force $C; rm -rf $C
echo DONE
