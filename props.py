"""Per-property job lists (what is explored in each tier) and the text that goes into the evidence."""
from run import Job


class E1Job:
    """clang -> LLVM IR -> C -> CBMC job (see e1/)."""

    def __init__(self, harness, entry, what="", unwind=None, timeout=300, defines=(), args=None):
        self.harness, self.entry, self.what, self.unwind, self.timeout = harness, entry, what, unwind, timeout
        self.defines = tuple(defines)
        self.args = dict(args or {})
        self.known = ()

    @property
    def name(self):
        d = ("[" + ",".join(self.defines) + "]") if self.defines else ""
        return "E1:%s:%s%s" % (self.harness, self.entry, d)


def run_e1(build, job, workdir):
    import e1.pipeline as p
    return p.run(build, job, workdir)


E2_ASSUME = [
    "engine E2: the symbolic ikos::z_number of sym/shadow/crab/numbers/bignums.hpp models GMP integers as z3 Int terms (validated on every run by replaying solver models on a native build with the real z_number/GMP and comparing every number crab computed)",
    "CRAB_ERROR ends a path (crab yields no result there); such paths are counted as aborted and are outside the claim",
    "z3 4.8.12 is trusted for unsat answers; unknown or timeout is never counted as success; per job a sample of the discharged queries is decided again by cvc5 (a cvc5 'sat' makes the check inconclusive, exit 2)",
    "hash() of the symbolic number is constant (hash-order independent code only); printing is a no-op on symbolic values",
]

PROPS = {}

# ---------------------------------------------------------------- C08
def c08_jobs(tier, seed):
    J = []
    R = 8 if tier == "quick" else 24
    for op in ("add", "sub", "neg", "join", "meet", "widen", "narrow", "leq", "member", "halfline", "trim"):
        J.append(Job("c08_itv", {"op": op}, what="interval<z_number> %s: shapes x unbounded symbolic bounds" % op, budget=300))
    J.append(Job("c08_itv", {"op": "mul"}, what="interval * : soundness + smallest interval, unbounded bounds", budget=600))
    for op in ("div", "srem", "urem", "udiv"):
        J.append(Job("c08_itv", {"op": op, "range": R}, what="z_interval %s (lib/interval.cpp), bounds in +-%d" % (op, R), budget=900,
                     shards=8 if op == "div" else 1, shard_depth=5))
    for op in ("and", "or", "xor"):
        J.append(Job("c08_itv", {"op": op, "range": R}, what="z_interval %s, bounds in +-%d, values in 12-bit two's complement" % (op, R), budget=900))
    for op in ("shl", "ashr", "lshr"):
        J.append(Job("c08_itv", {"op": op, "range": R, "krange": 4 if tier == "quick" else 6}, what="z_interval %s" % op, budget=900))
    # the other scalar abstractions (c08_scal harness)
    ARI = ("add", "sub", "mul", "div", "udiv", "srem", "urem", "and", "or", "xor", "shl", "lshr", "ashr")
    LAT = ("join", "meet", "leq")
    names = {"cg": "congruence<z_number>", "sg": "sign<z_number>", "ct": "constant<z_number>", "di": "dis_interval<z_number>", "ic": "interval_congruence<z_number>", "bv": "boolean_value"}
    q = tier == "quick"
    NONLIN = ("mul", "div", "udiv", "srem", "urem", "and", "or", "xor", "shl", "lshr", "ashr")
    for op in ARI + ("neg",) + LAT + ("widen", "narrow"):
        args = {"kind": "cg", "op": op}
        if q:
            args.update({"maxmod": 3, "brange": 3} if op in NONLIN else {"maxmod": 4, "brange": 4})
        J.append(Job("c08_scal", args, what="%s %s: moduli and residues concretised over their range, members symbolic" % (names["cg"], op), budget=600 if q else 2400, soft=not q))
    for op in ARI + LAT + ("cst",):
        J.append(Job("c08_scal", {"kind": "sg", "op": op}, what="%s %s: all 8 x 8 signs, members symbolic" % (names["sg"], op), budget=300))
    for op in ARI + LAT + ("widen", "narrow"):
        J.append(Job("c08_scal", {"kind": "ct", "op": op}, what="%s %s: symbolic constants" % (names["ct"], op), budget=300))
    for op in ARI + ("neg",) + LAT + ("widen", "narrow"):
        args = {"kind": "di", "op": op, "brange": 2 if q else 4}
        if q:
            args["fin"] = 1
        J.append(Job("c08_scal", args, what="%s %s: up to 2 disjuncts with symbolic bounds%s" % (names["di"], op, " (finite shapes)" if q else ""), budget=600 if q else 2400, soft=not q))
    for op in ("add", "mul", "div", "join", "meet") if q else ("add", "sub", "mul", "div", "join", "meet"):
        args = {"kind": "ic", "op": op, "maxmod": 2 if q else 3, "brange": 2 if q else 4}
        if q:
            args["fin"] = 1
        J.append(Job("c08_scal", args, what="%s %s: reduction keeps the members; symbolic interval bounds, small moduli" % (names["ic"], op), budget=600 if q else 2400, soft=not q))
    J.append(Job("c08_scal", {"kind": "bv", "op": "all"}, what="boolean_value: And Or Xor Negate join meet widening inclusion over all 4 x 4 values", budget=120))
    return J


PROPS["C08"] = dict(
    jobs=c08_jobs,
    explanation="Every operation of ikos::interval<z_number>/bound<z_number> (templates of interval_impl.hpp and the z_number specialisations of lib/interval.cpp, compiled unmodified) is executed symbolically for operands of symbolic shape and symbolic bounds; the solver decides op(x,y) in gamma(a op# b) for all x in gamma(a), y in gamma(b), and tightness of + - neg * join meet. "
                "The same soundness statement (and join / meet / widening / narrowing / inclusion facts) is decided for congruence, interval_congruence (reduction keeps the members), sign, constant, dis_interval and boolean_value: the shape of the abstract operands (sign, modulus and residue, number of disjuncts) is concretised by the solver over its whole range, constants and interval bounds stay symbolic, the members x and y are always symbolic.",
    bounds={"quick": "interval bounds unbounded for + - neg * and lattice ops; +-8 for / rem bitwise shifts (shift amount <= 4); bitwise values in 12-bit two's complement; congruences: moduli 0..4 and constants in +-4 (0..3 / +-3 for non-linear operations, members in +-24); signs: all 64 pairs; constants: unbounded (non-linear ops +-64); dis_interval: <= 2 disjuncts of finite shape with bounds in +-2 (unbounded for + - neg and lattice ops); interval_congruence: finite intervals in +-2, moduli 0..2",
            "thorough": "as quick with +-24 and shift amount <= 6; congruence moduli 0..6; dis_interval / interval_congruence with half lines and bounds in +-4 (soft: budgeted)"},
    outside=["interval<q_number> (rationals): no symbolic rational class", "bounds beyond the stated ranges for division/bitwise/shift operations", "congruence moduli above 6 (gcd loops need concrete moduli)", "small_range (a counter abstraction without numeric members; its increment is exercised by C15)"],
    assumptions=E2_ASSUME,
)
NA = {}

# ---------------------------------------------------------------- domain-operation histories (C03, C04, C05, C16)
import random
import zlib
import gen

# DOM id -> (name, extra args, weight class)
DOMS = {
    1: ("interval_domain", {}), 2: ("split_dbm(bignum weights)", {}), 3: ("split_dbm(default int64 weights)", {"cr": 4}),
    4: ("sparse_dbm(bignum weights)", {}), 5: ("split_oct(default int64 weights)", {"cr": 4}), 6: ("constant_domain", {}),
    7: ("sign_domain", {}), 8: ("sign_constant_domain", {}), 9: ("numerical_congruence_domain<intervals>", {}),
    10: ("dis_interval_domain", {}), 11: ("flat_boolean_numerical_domain<intervals>", {}), 12: ("reduced_product<intervals,zones>", {}),
    13: ("powerset_domain<intervals>", {}), 14: ("product_value_partitioning_domain<intervals>", {}),
    15: ("lookahead_widening_domain<split_oct>", {"cr": 4}), 16: ("numerical_packing_domain<intervals>", {}),
    17: ("fixed_tvpi_domain<zones>", {}), 18: ("term_domain<intervals>", {}), 19: ("uf_domain", {}),
    20: ("array_smashing<intervals>", {}), 21: ("array_adaptive_domain<intervals>", {}),
    22: ("abstract_domain_ref over intervals", {}), 23: ("abstract_domain_ref over zones", {}),
    24: ("split_dbm(safe int64 weights)", {"cr": 4}), 25: ("congruence_domain", {}),
}
BITW_OPS = (".and.", ".or.", ".xor.")


MACHINE_WEIGHT = (3, 5, 15, 24)


def dom_job(dom, seq, mode="sound", budget=120, soft=False, what="", tier="quick"):
    args = dict(DOMS[dom][1])
    if dom in MACHINE_WEIGHT:  # every symbolic constant is concretised over its range: keep 2 (quick) / 3 of them
        seq = gen.limit_sym(seq, 2 if tier == "quick" else 3, random.Random(zlib.crc32(seq.encode())))
    args["seq"] = seq
    if mode != "sound":
        args["mode"] = mode
    if any(b in seq for b in BITW_OPS) and "cr" not in args:
        args["cr"] = 16
    # DOM=15: under known finding F35 every path of a history that widens a non-increasing pair ends at the widening
    return Job("dom", args, defines=("DOM=%d" % dom,), budget=budget, what=what or ("%s: %s" % (DOMS[dom][0], seq)), witnesses=1,
               soft=soft, allow_vacuous=soft or (dom == 15 and "wid" in seq) or dom in MACHINE_WEIGHT)  # concretised constants of machine-weight jobs (range cr) can make a history infeasible


def hist_jobs(tier, seed, doms_full, doms_light, focus=None, ngen_quick=24, ngen_thorough=400, mode="sound"):
    J = []
    core = gen.core()
    if focus:
        core = [s for s in core if any(gen.opname(o) in focus for o in s.split(","))]
    for d in doms_full:
        for s in core:
            J.append(dom_job(d, s, mode, budget=400 if tier == "quick" else 1200, tier=tier))
    stride = 3 if tier == "quick" else 1
    for d in doms_light:
        for s in core[d % stride::stride]:
            J.append(dom_job(d, s, mode, budget=400 if tier == "quick" else 1200, tier=tier))
    rng = random.Random(1000 + seed)
    n = ngen_quick if tier == "quick" else ngen_thorough
    hs = gen.histories(rng, n, 3 if tier == "quick" else 4, focus)
    for i, (shape, s) in enumerate(hs):
        ds = doms_full if tier == "thorough" else [doms_full[i % len(doms_full)]]
        for d in ds:
            J.append(dom_job(d, s, mode, budget=60 if tier == "quick" else 300, soft=True, tier=tier))
        if doms_light:
            d = doms_light[i % len(doms_light)]
            J.append(dom_job(d, s, mode, budget=60 if tier == "quick" else 300, soft=True, tier=tier))
    return J


C03_FULL = [1, 2]
C03_LIGHT = [3, 4, 5, 6, 7, 8, 9, 10, 11, 12, 13, 14, 15, 16, 17, 18, 19, 20, 21, 24, 25]


def c03_jobs(tier, seed):
    return hist_jobs(tier, seed, C03_FULL, C03_LIGHT, ngen_quick=60)


HIST_EXPL = ("Two abstract values are built from top by an operation history run on the REAL domain implementation; kinds of "
             "operations, variables and multiplicative coefficients are enumerated (curated core list + seeded grammar-based generator), every additive "
             "constant and bound left symbolic (<= 3-4 per history) is decided by the solver for all values.  A concrete state is carried along by the corresponding "
             "concrete operations; after every step z3 decides state in gamma_obs(value): !is_bottom, state[v] in at(v), every constraint of "
             "to_linear_constraint_system() holds - for both values, and every observation of the value not operated on is unchanged.")
HIST_BOUNDS = {"quick": "2 program variables (+2 spare), histories of <= 8 operations from the core list on intervals and zones (bignum weights), every 3rd core history on 21 further domain configurations, 24-60 generated histories (seeded); <= 3 symbolic constants per history (unbounded, or +-6 for machine-weight DBMs, +-16 around bitwise ops); multiplicative/shift constants in +-3",
               "thorough": "all core histories on all 25 domain configurations, 400 generated histories with <= 4 symbolic constants"}
HIST_OUT = ["histories longer than 8 operations, more than 2+2 variables", "constants beyond the stated ranges for machine-weight DBM domains (int64 overflow is not explored)",
            "int_conv operations (crab's numerical domains treat casts as assignments of mathematical integers by design)", "third-party domains (Apron, Elina, Boxes/LDD, PPLite are not built in this tree)", "rationals"]

PROPS["C03"] = dict(jobs=c03_jobs, explanation=HIST_EXPL, bounds=HIST_BOUNDS, outside=HIST_OUT, assumptions=E2_ASSUME)

ALL_LIGHT = [3, 4, 5, 6, 7, 8, 9, 10, 11, 12, 13, 14, 15, 16, 17, 18, 19, 20, 21, 24, 25]
LATTICE_OPS = ("leq", "join", "joineq", "meet", "meeteq")
WIDEN_OPS = ("wid", "widt", "nar")



def lat3_jobs(ops, doms, tier):
    """operands over different variable sets: every pair of subsets of 4 variables (sa fixed per job, sb forked by the solver)"""
    J = []
    for d in doms:
        for o in ops:
            for sw in (0, 1):
                for sa in range(16):
                    J.append(Job("lat3", {"op": o, "swap": sw, "sa": sa, "nsym": 1}, defines=("DOM=%d" % d,), budget=300,
                                 what="%s on %s, operands over different variable sets (left set %d, every right set)" % (o, DOMS[d][0], sa), witnesses=1,
                                 soft=(tier != "quick" and d not in (1, 10))))
    return J


def c04_jobs(tier, seed):
    J = hist_jobs(tier, seed, [1, 2], ALL_LIGHT, focus=LATTICE_OPS, ngen_quick=40, ngen_thorough=400)
    J += lat3_jobs(("join", "meet", "leq"), (1, 10) if tier == "quick" else (1, 2, 6, 10, 12), tier)
    return J


PROPS["C04"] = dict(
    jobs=c04_jobs,
    explanation="Inclusion test and lattice operations of the real domains on pairs of values built by operation histories (incl. values over different variable sets): "
                "a<=a, bottom<=a, a<=top, is_bottom/is_top vs make_*/set_to_*; whenever a<=b answers yes, the concrete state carried with a must be described by b (at(), exported constraints); "
                "join/|= contains a state of either operand (symbolic choice), meet/&= a common state. "
                "lat3 harness: the same facts for every pair of variable subsets of 4 variables (left operand [0,5] on its set, right operand [1,4] / symbolic bounds on its set), and for interval environments join = point-wise join. " + HIST_EXPL,
    bounds=HIST_BOUNDS, outside=HIST_OUT, assumptions=E2_ASSUME)


def c05_jobs(tier, seed):
    J = hist_jobs(tier, seed, [1, 2], ALL_LIGHT, focus=WIDEN_OPS, ngen_quick=30, ngen_thorough=300)
    # scalar ranking facts (valid for chains of any length)
    for op in ("widen", "narrow"):
        J.append(Job("c08_itv", {"op": op}, what="interval %s: contains both / ranking fact (result equals left operand or has more infinite bounds)" % op))
    # every analysis run terminates on every path of the program family (step watchdog = path budget)
    for pr in FWD_PROGS:
        for (wd, di) in ((0, 0), (1, 2)) if tier == "quick" else ((0, 0), (1, 1), (2, 2), (1, 2)):
            for d in (1, 2):
                J.append(fwd_job(d, pr, wd, di, 0, tier))
    # known finding F35: the history on which the lookahead widening of a non-increasing pair shows
    J.append(dom_job(15, "cst.le.-1.0.1.1:?,lb.0:?,cpy,asg2.0.1.0.1.1:?,wid,swp,leq", "sound", budget=400, tier=tier))
    # widening / narrowing of operands over different variable sets; for intervals: environment widening = point-wise interval widening
    J += lat3_jobs(("wid", "nar"), (1, 10) if tier == "quick" else (1, 2, 6, 10, 12), tier)
    return J


def c16_jobs(tier, seed):
    J = []
    core = gen.core()
    stride = 2 if tier == "quick" else 1
    for d in ([1, 2, 5, 12, 18] if tier == "quick" else [1, 2, 4, 5, 9, 10, 12, 13, 18]):
        for s in core[d % stride::stride]:
            if d == 12 and tier == "quick":  # reduced product: the differential mode runs the history twice, keep 2 symbolic constants
                s = gen.limit_sym(s, 2, random.Random(zlib.crc32(s.encode())))
            J.append(dom_job(d, s, "c16q", budget=900 if tier == "quick" else 1200, tier=tier))
    # copy-on-write histories: at most 3 symbolic constants (the differential modes run every history twice)
    cow = [gen.limit_sym(s, 3, random.Random(zlib.crc32(s.encode()))) for s in gen.COW_CORE]
    for d in (22, 23):
        for s in core:
            J.append(dom_job(d, s, "c16w", budget=900, tier=tier))
        for s in cow:
            J.append(dom_job(d, s, "c16w", budget=900, tier=tier))
            J.append(dom_job(d, s, "c16q", budget=900, tier=tier))
        for s in core[d % 3::3]:
            J.append(dom_job(d, s, "sound", budget=900, tier=tier))
    for s in cow:
        J.append(dom_job(1, s, "c16q", budget=900, tier=tier))
    # copy-then-mutate histories in sound mode: every observation of the untouched value is unchanged
    cp = [s for s in core if "cpy" in s]
    for d in ([1, 2, 5, 10, 13, 18, 21] if tier == "quick" else [1, 2, 3, 4, 5, 10, 12, 13, 17, 18, 20, 21]):
        for s in cp:
            J.append(dom_job(d, s, "sound", budget=400, tier=tier))
    rng = random.Random(3000 + seed)
    n = 20 if tier == "quick" else 300
    for i, (shape, s) in enumerate(gen.histories(rng, n, 3, None)):
        d = [1, 2, 4, 12, 18][i % 5]
        J.append(dom_job(d, s, "c16q", budget=60 if tier == "quick" else 300, soft=True, tier=tier))
        J.append(dom_job(22 + i % 2, s, "c16w", budget=60 if tier == "quick" else 300, soft=True, tier=tier))
    return J


PROPS["C16"] = dict(
    jobs=c16_jobs,
    explanation="Value semantics of the real domains: (1) after b = a (copy assignment, copy construction + move assignment) an operation on either leaves every observation of the other unchanged "
                "(at() bounds of every variable, is_bottom), decided after every step of a history; (2) differential runs of the same history with and without interleaved read-only queries, "
                "normalize() and minimize(): identical observations at the end; (3) the same history on the unwrapped domain and on abstract_domain_ref (copy-on-write wrapper): identical observations. " + HIST_EXPL,
    bounds=HIST_BOUNDS, outside=HIST_OUT + ["observations are at() bounds, is_bottom, is_top and soundness of exported constraints; structural equality of representations is not compared"],
    assumptions=E2_ASSUME)

# ---------------------------------------------------------------- program-level (C01, C02, C05c)
FWD_PROGS = ["straight", "diamond", "loop", "loop2", "nested", "selfloop", "entryloop", "irreducible", "unreach", "ops", "ops2", "bools", "bools2", "boolstale", "boolneg", "boolhavoc"]
# which constants of each program are symbolic in the default job
FWD_SYM = {"straight": "0,2,3", "diamond": "0,1,3", "loop": "0,1,2", "loop2": "0,1,2", "nested": "0,1", "selfloop": "0,1,2", "entryloop": "0,1",
           "irreducible": "1,2", "unreach": "0,2", "ops": "0,1,3", "bools": "0,1,2", "boolstale": "0,1,2", "ops2": "0,1", "bools2": "0,1,2", "boolneg": "0,1,2", "boolhavoc": "0,1"}


def fwd_job(dom, prog, wd, di, thr, tier, live=0, sym=None, budget=400, soft=False):
    args = {"prog": prog, "wd": wd, "di": di, "thr": thr, "live": live, "sym": sym if sym is not None else FWD_SYM[prog]}
    if dom in MACHINE_WEIGHT:
        args["range"] = 3
        args["sym"] = ",".join(args["sym"].split(",")[:2])
    elif dom in (9, 25):  # congruences: gcd/modulo loops over symbolic constants are non-linear for the solver
        args["range"] = 3
        args["sym"] = args["sym"].split(",")[0]
    elif dom not in (1, 2):
        args["sym"] = ",".join(args["sym"].split(",")[:2])
    return Job("fwd", args, defines=("DOM=%d" % dom,), budget=budget, what="%s on %s" % (DOMS[dom][0], prog), witnesses=1, soft=soft)


def c01_jobs(tier, seed):
    J = []
    params = [(1, 1, 0), (0, 0, 0), (2, 2, 5)] if tier == "quick" else [(w, d, t) for w in (0, 1, 2) for d in (0, 1, 2) for t in (0, 5)]
    doms_full = [1, 2]
    doms_light = [3, 5, 10, 11, 12, 13, 17, 18, 9] if tier == "quick" else [3, 4, 5, 9, 10, 11, 12, 13, 14, 16, 17, 18, 20, 21, 6, 7, 8, 25]
    for pr in FWD_PROGS:
        for (wd, di, thr) in params:
            for d in doms_full:
                sym = None
                if tier == "quick" and d == 2 and (wd, di, thr) != (1, 1, 0):
                    sym = ",".join(FWD_SYM[pr].split(",")[:2])  # zones: 3 symbolic constants only under the default setting
                J.append(fwd_job(d, pr, wd, di, thr, tier, sym=sym))
        for d in doms_full:
            J.append(fwd_job(d, pr, 1, 1, 0, tier, live=1))
    for i, d in enumerate(doms_light):
        progs = FWD_PROGS if tier == "thorough" else FWD_PROGS[i % 3::3]
        for pr in progs:
            J.append(fwd_job(d, pr, 1, 1, 0, tier))
    # the Boolean skeletons always run on the flat Boolean domain
    have = set(j.name for j in J)
    for pr in ("bools", "bools2", "boolstale", "boolneg", "boolhavoc"):
        for live in (0, 1):
            j = fwd_job(11, pr, 1, 1, 0, tier, live=live)
            if j.name not in have:
                J.append(j)
    return J


FWD_EXPL = ("The real intra_fwd_analyzer (WTO, interleaved fixpoint iterator, intra_abs_transformer, liveness pruning, the selected abstract domain) is run on each skeleton of the program family "
            "with SYMBOLIC program constants (all paths of the analysis are explored); then the reference interpreter executes the same cfg object from an arbitrary initial state with symbolic havoc "
            "values and forking goto choices; at every block entry/exit reached z3 decides state in gamma_obs(get_pre/get_post): not bottom, value in at(v), exported constraints hold. "
            "The assertion checker's SAFE / UNREACHABLE verdicts are compared with the assertion outcomes seen by the interpreter.")
FWD_BOUNDS = {"quick": "17 skeletons (<= 7 blocks: straight line, diamond, simple/nested/self/entry/irreducible loops, unreachable and non-exiting blocks, signed/unsigned division, bitwise ops and shifts, selects, Boolean and/or/xor/not/select, Booleans whose operands are overwritten or havocked), <= 3 symbolic constants each (unbounded; +-3 around defaults for machine-weight DBMs), executions of <= 14 block visits; (delay,descending,thresholds) in {(1,1,0),(0,0,0),(2,2,5)} on intervals and zones + liveness pruning; (1,1,0) on 18 further domains for a third of the skeletons",
              "thorough": "all 18 parameter settings on intervals and zones, all skeletons on all domains"}
FWD_OUT = ["programs outside the family (structure is concrete; 'all programs' is bounded to it)", "executions longer than 14 block visits", "arrays / references (C14, C15)", "alternative entry blocks and assumption maps (covered for the engine by C06)"]
PROPS["C01"] = dict(jobs=c01_jobs, explanation=FWD_EXPL, bounds=FWD_BOUNDS, outside=FWD_OUT, assumptions=E2_ASSUME + ["the reference interpreter sym/interp.hpp defines the concrete semantics of CrabIR (unsigned ops only on non-negative operands, shifts by 0..6, bitwise ops on 12-bit values)"])
PROPS["C05"] = dict(
    jobs=c05_jobs,
    explanation="(a) widening/narrowing inside operation histories: result of || (and widening_thresholds with symbolic thresholds) describes a state of either argument; narrowing of a decreasing pair describes the state of its second argument; "
                "(b) interval widening ranking fact for chains of any length, lifted to environments: for every pair of variable subsets of 4 variables the widening of two interval environments is the point-wise interval widening of the bindings (lat3 harness); (c) termination: every path of every analysis run of the program family (symbolic constants) must finish - a diverging value would be a path that never ends and is reported as NO-VERDICT/path-too-long. " + HIST_EXPL,
    bounds=HIST_BOUNDS, outside=HIST_OUT + ["ranking argument for zones/octagons (number of finite edges) is not observable through the public API; covered only through bounded chains in histories and analysis runs"],
    assumptions=E2_ASSUME)

# ---------------------------------------------------------------- C06: fixpoint engine = least solution
C06_SHAPES = {
    "chain": "010,001,000", "diamond": "0110,0001,0001,0000", "simple-loop": "0100,0011,0100,0000", "self-loop": "010,011,000",
    "entry-self-loop": "11,00", "entry-loop-head": "010,101,000", "two-loops-seq": "01000,00110,01000,00001,00010",
    "nested": "01000,00101,00010,00101,00000", "irreducible": "0110,0011,0101,0000", "unreachable-block": "0100,0010,0000,0010",
    "no-exit": "010,001,010", "loop-exit-from-body": "0100,0010,0101,0000", "double-back-edge": "0100,0010,0101,0100",
    "branch-in-loop": "01000,00110,00001,00001,01000",
}
for _k, _v in C06_SHAPES.items():
    _r = _v.split(",")
    assert all(len(x) == len(_r) for x in _r), _k


def c06_jobs(tier, seed):
    J = []
    params = [(0, 0), (1, 1), (2, 2)] if tier == "quick" else [(w, d) for w in (0, 1, 2) for d in (0, 1, 2)]
    for nm, sh in C06_SHAPES.items():
        n = len(sh.split(","))
        for (wd, di) in params:
            J.append(Job("c06", {"shape": sh, "wd": wd, "di": di}, what="engine vs Kleene on '%s'" % nm, witnesses=1))
        # assumption maps: on every subset of blocks (quick: three subsets)
        subsets = [(1 << n) - 1, 2, 1 << (n - 1)] if tier == "quick" else list(range(1, 1 << n))
        for a in subsets:
            J.append(Job("c06", {"shape": sh, "wd": 1, "di": 1, "assume": a}, what="'%s' with assumption map %s" % (nm, bin(a)), witnesses=1))
        # alternative start blocks (blocks inside a loop end the path: outside the property)
        for st in range(1, n):
            J.append(Job("c06", {"shape": sh, "wd": 1, "di": 1, "start": st}, what="'%s' started at block %d" % (nm, st), witnesses=1, allow_vacuous=True))
    # fully symbolic adjacency
    J.append(Job("c06", {"shape": "sym", "nv": 2, "wd": 1, "di": 1}, what="all graphs with 2 blocks (symbolic adjacency bits)"))
    J.append(Job("c06", {"shape": "sym", "nv": 2, "wd": 0, "di": 2}, what="all graphs with 2 blocks (symbolic adjacency bits)"))
    if tier == "thorough":
        J.append(Job("c06", {"shape": "sym", "nv": 3, "wd": 1, "di": 1}, what="all graphs with 3 blocks (symbolic adjacency bits)", budget=3000, shards=16, shard_depth=8))
    # clause 2: no extrapolation within the widening delay, on a real domain
    for pr in ("loop", "selfloop", "nested"):
        for d in (1, 2):
            J.append(Job("c06b", {"prog": pr, "wd": 8 if tier == "quick" else 12, "sym": "0"}, defines=("DOM=%d" % d,), what="join-only least fixpoint within the delay: %s on %s" % (pr, DOMS[d][0]), witnesses=1, budget=600))
    return J


PROPS["C06"] = dict(
    jobs=c06_jobs,
    explanation="The real interleaved_fwd_fixpoint_iterator + wto are driven through a client subclass with a finite-height value type (subsets of a 3-element state space; widening = join, narrowing = meet), "
                "block transformers = arbitrary symbolic relations, symbolic initial value and assumption map; z3 decides result == least solution of the flow equations (Kleene iteration written as formulas) at every block. "
                "Clause 2: interval/zones analyses of loops whose join-only iteration stabilises within the delay equal a naive round-robin join-only iteration with the same real domain operations.",
    bounds={"quick": "14 graph shapes <= 5 blocks x (delay,descending) in {(0,0),(1,1),(2,2)}; 3 assumption subsets and every admissible alternative start block per shape; all graphs with 2 blocks via symbolic adjacency; state space of 3 concrete states",
            "thorough": "all 9 (delay,descending) settings, all assumption subsets, all graphs with 3 blocks"},
    outside=["graphs with more than 5 blocks (3 with symbolic adjacency)", "state spaces larger than 3 elements", "start blocks inside a loop (excluded by the property)"],
    assumptions=E2_ASSUME)

# ---------------------------------------------------------------- C07: WTO
def c07_jobs(tier, seed):
    J = []
    for nv in (1, 2, 3):
        for e in range(nv):
            orders = ["".join(map(str, range(nv))), "".join(map(str, reversed(range(nv))))]
            for o in sorted(set(orders)):
                J.append(Job("c07", {"nv": nv, "entry": e, "order": o}, what="all graphs with %d nodes, entry %d, successor order %s" % (nv, e, o), witnesses=2))
    rng = random.Random(70 + seed)
    o4 = ["0123", "3210"]
    if tier == "thorough":
        o4 = ["0123", "3210", "1032", "2301", "0213", "3120"]
    for o in o4:
        for e in ((0,) if tier == "quick" else (0, 1, 2, 3)):
            J.append(Job("c07", {"nv": 4, "entry": e, "order": o}, what="all graphs with 4 nodes (2^16 adjacency matrices, explored through the bits the algorithm reads)", budget=900, shards=16, shard_depth=10, witnesses=1))
    if tier == "thorough":
        J.append(Job("c07", {"nv": 5, "entry": 0, "order": "01234"}, what="graphs with 5 nodes (attempted under a path budget)", budget=1200, shards=16, shard_depth=12, witnesses=1, soft=True))
    return J


PROPS["C07"] = dict(
    jobs=c07_jobs,
    explanation="The real ikos::wto<G> runs on a graph whose adjacency bits are solver symbols read lazily (the algorithm forks on every bit it inspects; all combinations are explored); "
                "the well-formedness conditions (each node reachable from the entry exactly once - reachability being a formula over ALL bits -, edge condition, proper nesting, nesting() = strictly enclosing heads outermost first) are decided by z3 on every path. "
                "For this structure-only property the solver's contribution is the exhaustive, demand-driven enumeration of graphs and the decision of the reachability formula over the unread bits.",
    bounds={"quick": "all directed graphs with <= 4 nodes (self loops, unreachable nodes, irreducible cycles included), every entry node for <= 3 nodes, two successor orders", "thorough": "4 nodes: every entry node and 6 global successor orders; 5 nodes attempted under a budget (soft)"},
    outside=["graphs with more than 4 nodes", "successor orders that differ from node to node (orders are a global permutation of the node numbering)", "call-graph instantiation cg_bgl.hpp (same template)"],
    assumptions=E2_ASSUME)

# ---------------------------------------------------------------- C13 (E1), C20 (E1 + E2), C19 kernels (E1)
E1_ASSUME = [
    "engine E1: the unit is compiled by clang++-14 from /repo's current sources, linked and reduced at the LLVM-IR level, translated to C by e1/ll2c.py and decided by CBMC 6.11 (kissat) with unwinding assertions; the translation is validated on every run against a native g++ build of the same harness with the real libraries on 300 random vectors",
    "malloc never fails; exit()/CRAB_ERROR end the path (no result is produced there); printing is not modelled",
    "preconditions of the API are assumed as documented in each harness (equal widths, shift amount < width, divisor != 0)",
]
GMP_ASSUME = ["units that use ikos::z_number run over the inline GMP model e1/stub/gmp.h (128-bit exact add/sub/compare/bitwise; mul/div at 32 bit with range-asserted operands); the model is cross-checked against the real GMP by the native validation step"]


def c13_jobs(tier, seed):
    J = []
    mw = 16 if tier == "quick" else 24
    for e in ("h_wi_ctor", "h_wi_add", "h_wi_addeq", "h_wi_cmp", "h_wi_bitwise", "h_wi_ashr", "h_wi_shl", "h_wi_ext", "h_wi_trunc"):
        J.append(E1Job("wrapint", e, what="lib/wrapint.cpp: all widths 1..64, all 64-bit operands", unwind=2, timeout=600, args={"libs": ["wrapint"], "seed": 1 + seed}))
    for e in ("h_wi_mul", "h_wi_udiv"):
        J.append(E1Job("wrapint", e, what="lib/wrapint.cpp: widths 1..%d (multiplier/divider)" % mw, unwind=2, timeout=900, args={"libs": ["wrapint"], "seed": 1 + seed}, defines=("MULW=%d" % mw,)))
    for e in ("h_wb_to_bignum", "h_wb_from_bignum"):
        J.append(E1Job("wrapint_big", e, what="wrapint <-> z_number conversions: all widths, all values (GMP model)", unwind=2, timeout=600, args={"libs": ["wrapint", "bignums"], "gmp_model": True, "seed": 1 + seed}))
    J.append(E1Job("wrapint_big", "h_wb_sdiv", what="wrapint sdiv/srem, widths 1..%d (GMP model)" % (8 if tier == "quick" else 12), unwind=2, timeout=1200,
                   args={"libs": ["wrapint", "bignums"], "gmp_model": True, "seed": 1 + seed}, defines=("DIVW=%d" % (8 if tier == "quick" else 12),)))
    wl = {"libs": ["wrapint", "wrapped_interval", "bignums"], "gmp_model": True, "seed": 1 + seed}
    J.append(E1Job("wint", "h_wint_add", what="wrapped_interval + - neg: widths 1..4, all intervals, all members", unwind=20, timeout=900, args=wl))
    J.append(E1Job("wint", "h_wint_bitwise", what="wrapped_interval And Or Xor: widths 1..4", unwind=20, timeout=900, args=wl))
    J.append(E1Job("wint", "h_wint_lattice", what="wrapped_interval | || & <=: width 3", unwind=20, timeout=900, args=wl, defines=("FIXW=3",)))
    for (fw, tk) in ((4, 1), (4, 2), (4, 3), (5, 2), (6, 3), (8, 4), (8, 7), (12, 8), (16, 8), (32, 16), (64, 32)):
        J.append(E1Job("wint", "h_wint_trunc", what="wrapped_interval Trunc from width %d to %d: all intervals, all members" % (fw, tk), unwind=20, timeout=900, args=wl, defines=("FIXW=%d" % fw, "TK=%d" % tk)))
    if tier == "thorough":
        J.append(E1Job("wint", "h_wint_shift", what="wrapped_interval Shl LShr AShr: widths 1..4", unwind=20, timeout=1800, args=wl))
        J.append(E1Job("wint", "h_wint_lattice", what="wrapped_interval | || & <=: width 4", unwind=20, timeout=3000, args=wl, defines=("FIXW=4",)))
    return J


PROPS["C13"] = dict(
    jobs=c13_jobs, engine="E1",
    explanation="crab::wrapint (lib/wrapint.cpp) against an independent bit-vector reference for all widths 1..64 and all operands; wrapped_interval operations: every bit-vector result of members of the argument intervals lies in the result interval (membership = the real at() and an independent modular-distance predicate).",
    bounds={"quick": "wrapint: all widths and all 64-bit operands for + - neg ++ -- comparisons & | ^ << lshr ashr sext zext keep_lower msb min/max and bignum conversions; * udiv urem at widths <= 16, sdiv srem <= 8; wrapped_interval + - neg And Or Xor at widths <= 4, | || & <= at width 3, Trunc for 11 (source,target) width pairs up to 64->32",
            "thorough": "* udiv urem <= 24, sdiv srem <= 12; wrapped_interval shifts <= 4, lattice at width 4"},
    outside=["wrapped_interval * / SDiv UDiv SRem URem ZExt SExt: CBMC gave no verdict within 900 s even at width 3 (vacuity witness not decided) - only the native random-vector validation runs on them (it found defect F15 in signed multiplication)",
             "wrapped_interval_domain (environment over wrapped intervals): not encoded", "string conversions (GMP/iostream code)", "wrapint(q_number)"],
    assumptions=E1_ASSUME + GMP_ASSUME,
    technique="bounded model checking of the compiled code (clang -> LLVM IR -> own translator -> C -> CBMC 6.11 with unwinding assertions), translation validated against a native build on every run")


def c20_jobs(tier, seed):
    J = []
    bl = {"libs": ["bignums"], "gmp_model": True, "seed": 1 + seed}
    for e in ("h_bn_int64_roundtrip", "h_bn_uint64", "h_bn_cmp_add", "h_bn_beyond64", "h_bn_bitwise", "h_bn_shift", "h_bn_fill_ones"):
        J.append(E1Job("bignums", e, what="lib/bignums.cpp wrappers over the GMP model", unwind=12, timeout=600, args=bl))
    J.append(E1Job("bignums", "h_bn_muldiv", what="z_number * / %%: operands in +-%d" % (128 if tier == "quick" else 1024), unwind=2, timeout=1800, args=bl, defines=("BN_R=%d" % (128 if tier == "quick" else 1024),)))
    sl = {"libs": ["safeint"], "seed": 1 + seed}
    for e in ("h_si_add", "h_si_sub", "h_si_noerr", "h_si_cmp"):
        J.append(E1Job("safeint", e, what="lib/safeint.cpp: all 64-bit operands", unwind=2, timeout=600, args=sl))
    for e in ("h_si_mul", "h_si_div"):
        J.append(E1Job("safeint", e, what="safe_i64 * /: one operand arbitrary, the other within +-2^%d" % (12 if tier == "quick" else 31), unwind=2, timeout=1800, args=sl, defines=("MB=%d" % (12 if tier == "quick" else 31),)))
    # linear expressions / constraints / systems (E2): coefficient tuples enumerated, constants and valuation symbolic
    rng = random.Random(200 + seed)
    tuples = [(1, -1, 2, 0, 3, 1), (0, 0, 0, 0, -2, 0), (2, -3, -2, 3, 0, 1), (1, 1, -1, -1, -1, 1), (0, 2, 0, 0, 1, 1), (1, 0, -1, 0, 0, 1), (-1, 0, 0, 0, 2, 0), (3, 3, 3, 3, 3, 1)]
    n = 24 if tier == "quick" else 400
    while len(tuples) < n:
        tuples.append(tuple(rng.randint(-3, 3) for _ in range(5)) + (rng.randint(0, 1),))
    for t in tuples:
        J.append(Job("lincons", {"coefs": ",".join(map(str, t))}, defines=("DOM=1",), what="linear_constraints.hpp with coefficients %s" % (t,), witnesses=1, budget=120))
    return J


PROPS["C20"] = dict(
    jobs=c20_jobs, engine="E1+E2",
    explanation="z_number wrappers of lib/bignums.cpp (E1, over the inline GMP model): int64/uint64 conversions over the full 64-bit range, order, + - neg ++ --, truncating / and sign of %, floor >>, <<, two's complement & | ^, fill_ones, sums beyond 64 bits; safe_i64 (E1): an operation either ends in CRAB_ERROR or returns the exact result for all 64-bit operands; "
                "linear_expression/constraint/system (E2): evaluation is a homomorphism for + - scaling and renaming, negate() is the exact complement over the integers, is_tautology/is_contradiction are exact on constant constraints, normalize() preserves the solution set.",
    bounds={"quick": "conversions/order/add/sub/bitwise: all 64-bit values; * / %: operands in +-128; shifts by <= 30; safe_i64 * /: second operand within +-2^12; linear constraints: 24 coefficient tuples in -3..3 (2 variables), constants and valuation unbounded",
            "thorough": "* / % in +-1024; safe_i64 * / second operand +-2^31; 400 coefficient tuples"},
    outside=["q_number (rationals, rounding): no mpq model", "string round trips (GMP code)", "numbers beyond the model's 100-bit range", "z_number::operator<< / >> with negative shift amounts (the wrappers pass |k| to GMP; noted, not claimed)"],
    assumptions=E1_ASSUME + GMP_ASSUME + E2_ASSUME,
    technique="bounded model checking of the compiled wrappers (clang -> LLVM IR -> C -> CBMC) + solver-based symbolic execution of linear_constraints.hpp (z3-backed z_number)")

# ---------------------------------------------------------------- C19: environments and sets
C19_LAYOUTS = [  # (keys of A, keys of B, probe keys): leaf/leaf, leaf/node, node/node, disjoint, nested, equal prefix, far apart
    ("1", "2", "3"), ("1", "1", "2"), ("1,2", "3", "4"), ("1,2", "1,2", "5"), ("1,2,3", "2", "8"), ("2,3", "1,2,3", "0"),
    ("4,5", "6,7", "1"), ("4,6", "5,7", "12"), ("8,9", "1", "10"), ("1", "8,9", "16"), ("0,1", "2,3", "4"),
    ("1,9223372036854775808", "2", "3"), ("9223372036854775808,9223372036854775809", "1,9223372036854775808", "0"),
    ("16,17", "16,20", "18"), ("3,5", "3,6", "4"), ("7", "8", "15"),
]


def c19_jobs(tier, seed):
    J = []
    for e in ("h_pt_bits", "h_pt_nested", "h_pt_prefix"):
        J.append(E1Job("ptbits", e, what="patricia bit kernels for arbitrary 64-bit indices", unwind=70, timeout=600, args={"libs": [], "seed": 1 + seed}))
    layouts = list(C19_LAYOUTS)
    rng = random.Random(190 + seed)
    pool = list(range(0, 12)) + [16, 17, 31, 32, 33, 64, 255, 256, 1 << 31, (1 << 31) + 1, 1 << 62, (1 << 63), (1 << 63) + 5, (1 << 64) - 1]
    n = 30 if tier == "quick" else 600
    while len(layouts) < n:
        ka = rng.sample(pool, rng.choice([1, 2, 2, 3]))
        kb = rng.sample(pool, rng.choice([1, 2, 2, 3]))
        if rng.random() < 0.5:
            kb = kb[:-1] + [rng.choice(ka)]
        layouts.append((",".join(map(str, ka)), ",".join(map(str, kb)), str(rng.choice(pool))))
    ops = ["join", "meet", "widen", "narrow", "leq", "update"]
    for i, (ka, kb, kx) in enumerate(layouts):
        big = len(ka.split(",")) + len(kb.split(",")) >= 5
        for j, op in enumerate(ops):
            if tier == "quick" and i >= len(C19_LAYOUTS) and (i + j) % 3:
                continue
            J.append(Job("sepdom", {"op": op, "ka": ka, "kb": kb, "kx": kx, "shapes": 0 if big else 1}, what="separate_domain %s on key layout A={%s} B={%s}" % (op, ka, kb),
                         witnesses=1, budget=400, soft=i >= len(C19_LAYOUTS)))
        ka4 = ",".join((ka.split(",") + ["40", "41"])[:4])
        kb4 = ",".join((kb.split(",") + ["41", "48"])[:4])
        if tier == "thorough" or i % 2 == 0:
            J.append(Job("sepdom", {"op": "set", "ka": ka4, "kb": kb4, "kx": kx}, what="patricia_tree_set over candidates {%s} / {%s} with symbolic membership" % (ka4, kb4), witnesses=1, budget=300))
    return J


PROPS["C19"] = dict(
    jobs=c19_jobs, engine="E2+E1",
    explanation="separate_domain<key, interval<z_number>> over the real patricia trees: for concrete key layouts (bit patterns enumerated: leaf/leaf, leaf/node, node/node, disjoint, nested, equal prefixes, indices up to 2^64-1) and SYMBOLIC interval values (every value-dependent merge decision forks under solver control), "
                "join/meet/widening/narrowing/<=/==/set/remove/join(k,v)/rename/project agree with the point-wise reference map on every key, iteration lists exactly the non-top bindings once, operands are unchanged; patricia_tree_set with symbolic membership: union, intersection, difference, membership, subset, iteration exact; "
                "E1: the bit kernels (branching bit, mask, match_prefix, zero_bit, routing invariant) for arbitrary 64-bit indices.",
    bounds={"quick": "16 curated + 14 generated key layouts (<= 3 keys per operand + 1 probe key) x 6 operations, interval values: finite or half lines, unbounded bounds; sets over 4+4 candidate keys", "thorough": "600 layouts"},
    outside=["more than 3 keys per operand (trees deeper than 2 branch levels are reached only through the generated layouts)", "value lattices other than intervals", "separate_discrete_domain"],
    assumptions=E2_ASSUME + E1_ASSUME)

# ---------------------------------------------------------------- C11 (backward), C02 (checker verdicts)
BWD_PROGS = ["bsel", "bsel2", "bdiv", "bloop", "noexit", "straight", "diamond", "loop", "loop2", "selfloop", "irreducible", "unreach", "ops", "ops2", "bools2"]
BWD_SYM = dict(FWD_SYM, bsel="0,1,2", bsel2="0,1,3", bdiv="2,3", bloop="1,2", noexit="0,2")


def bwd_job(dom, prog, mode, tier, extra=None, budget=400):
    args = {"prog": prog, "mode": mode, "sym": BWD_SYM[prog]}
    if dom != 1 or mode == "fb":
        args["sym"] = ",".join(args["sym"].split(",")[:2])
    if dom in MACHINE_WEIGHT:
        args["range"] = 3
    args.update(extra or {})
    return Job("bwd", args, defines=("DOM=%d" % dom,), budget=budget, what="%s %s on %s" % (mode, prog, DOMS[dom][0]), witnesses=1)


def c11_jobs(tier, seed):
    J = []
    doms = [1, 2] if tier == "quick" else [1, 2, 3, 5, 12]
    for pr in BWD_PROGS:
        for mode in ("error", "error-inv", "good"):
            for d in doms:
                j = bwd_job(d, pr, mode, tier)
                j.soft = d not in (1, 2)  # thorough-tier extras
                J.append(j)
    return J


PROPS["C11"] = dict(
    jobs=c11_jobs,
    explanation="The real necessary_preconditions_fixpoint_iterator (reversed-CFG fixpoint, intra_necessary_preconditions_abs_transformer, BackwardAssignOps) is run in error mode (with and without forward invariants) and in good mode (symbolic final condition x <= G) on the program family with symbolic constants; "
                "the reference interpreter executes the cfg from an arbitrary initial state and records the state at every block entry; for every execution that ends at a violated assertion (resp. reaches the exit in a good final state) z3 decides that every recorded state lies in gamma_obs of the precondition of its block - in particular an empty precondition at the entry block implies that no violating execution exists.",
    bounds={"quick": "12 skeletons (select with self-referential condition, non-invertible division/remainder/multiplication, assertion inside a loop, loops, diamonds, unreachable blocks), <= 3 symbolic constants, 3 modes, intervals and zones, executions of <= 12 block visits", "thorough": "+ int64 zones, octagons, intervals x zones product"},
    outside=["domains with their own backward operations in Apron/Elina/Boxes (not built)", "array and reference statements", "programs outside the family"],
    assumptions=E2_ASSUME)


def c02_jobs(tier, seed):
    J = []
    # (1) checker on the forward analysis: C01's runs with the checker verdict comparison
    for pr in FWD_PROGS + ["bsel", "bsel2", "bdiv", "bloop"]:
        for d in (1, 2, 11):
            J.append(Job("fwd", {"prog": pr, "wd": 1, "di": 1, "thr": 0, "live": 0, "sym": ",".join(BWD_SYM[pr].split(",")[:3 if d == 1 else 2])}, defines=("DOM=%d" % d,), budget=400,
                         what="intra_checker verdicts after forward analysis: %s on %s" % (pr, DOMS[d][0]), witnesses=1))
    # (2) checker on the forward+backward analysis, every fwd_bwd parameter setting
    settings = [(1, 5, 0), (1, 5, 1), (0, 5, 0)] if tier == "quick" else [(b, r, u) for b in (0, 1) for r in (0, 1, 2, 5) for u in (0, 1)]
    for pr in BWD_PROGS:
        for (b, r, u) in settings:
            for d in ((1, 2) if tier == "quick" else (1, 2, 3, 12)):
                j = bwd_job(d, pr, "fb", tier, {"bwd": b, "refine": r, "refined": u})
                j.soft = d in (3, 12)  # thorough-tier extras: a budget overrun there is recorded, not a failure
                J.append(j)
    # (3) checker interleaved with the top-down inter-procedural analysis (inter harness, run_checker=true)
    for pr in INTER_PROGS:
        for rec in ((0, 1) if pr in ("rec", "mutual") else (0,)):
            j = inter_job(pr, INTER_SYM[pr][-1], 1, rec=rec, only="verdicts")
            j.what = "inter-procedural checker verdicts: " + j.what
            J.append(j)
    return J


PROPS["C02"] = dict(
    jobs=c02_jobs,
    explanation="intra_checker + assert_property_checker run on (1) the forward analysis and (2) intra_forward_backward_analyzer (every fwd_bwd parameter setting: backward on/off, refinement iterations, refined invariants) over the program family with symbolic constants; "
                "for every assertion the reference interpreter reaches: verdict SAFE implies the assertion's condition holds on that execution, verdict UNREACHABLE implies it is never reached - decided by z3 for all values on every path.",
    bounds={"quick": "16 skeletons x {intervals, zones, flat Boolean x intervals} (forward) and 12 skeletons x 4 fwd_bwd settings x {intervals, zones} (forward+backward); <= 3 symbolic constants; executions of <= 14 block visits", "thorough": "all 16 fwd_bwd settings, more domains"},
    outside=["checker of the bottom-up analyzer", "reference assertions (assert_ref)", "programs outside the family"],
    assumptions=E2_ASSUME)

# ---------------------------------------------------------------- C17 (transformations), C18 (liveness, assertion crawler)
XF_PROGS = ["deadcode", "chain", "inplace", "sumodd", "crawl", "straight", "diamond", "loop", "loop2", "nested", "selfloop", "irreducible", "unreach", "ops", "ops2", "bools", "bools2", "bsel2", "bloop", "noexit"]
XF_SYM = dict(BWD_SYM, deadcode="0,1,3", chain="0,1,3", inplace="0,1", sumodd="0,1", crawl="0,1")


def xf_job(prog, mode, d=None, dom=1, blocks=10, budget=400):
    args = {"prog": prog, "mode": mode, "sym": ",".join(XF_SYM[prog].split(",")[:2]), "blocks": blocks}
    if d:
        args["dir"] = d
    return Job("xform", args, defines=("DOM=%d" % dom,), budget=budget, what="%s %s %s" % (mode, d or "", prog), witnesses=1)


def c17_jobs(tier, seed):
    J = []
    for pr in XF_PROGS:
        for mode in ("simplify", "dce", "dce+simplify", "lower"):
            for d in ("fwd", "bwd"):
                J.append(xf_job(pr, mode, d, blocks=10 if tier == "quick" else 14))
    if tier == "thorough":
        for pr in XF_PROGS:
            J.append(xf_job(pr, "lower", "fwd", dom=2))
            J.append(xf_job(pr, "lower", "bwd", dom=2))
    return J


PROPS["C17"] = dict(
    jobs=c17_jobs,
    explanation="cfg::simplify(), dead_code_elimination and lower_safe_assertions (after a real interval analysis + assertion checker) are applied to a copy of each skeleton; twin runs of the reference interpreter - one forking freely, the other guided along the same route with the same initial state and havoc values - are compared in both directions: "
                "every exit-reaching execution of the original has a counterpart in the transformed cfg with the same sequence of evaluated conditions and assertion outcomes and the same final values of the function outputs, and vice versa; structural well-formedness (entry/exit kept, edges symmetric) is asserted directly. z3 decides the comparisons for all initial states and constants on every path.",
    bounds={"quick": "17 skeletons (dead assignments and havocs, single-successor chains, unreachable and non-exiting blocks, self loops, function declarations with outputs) x 4 transformations x 2 directions, executions of <= 10 block visits, 2 symbolic constants", "thorough": "<= 14 block visits; lowering also after a zones analysis"},
    outside=["programs outside the family", "removed statements that can fail (excluded by the property)", "array/reference statements"],
    assumptions=E2_ASSUME + ["havoc values are matched by order of occurrence (no skeleton has a dead havoc followed by a live havoc of the same variable)"])


def c18_jobs(tier, seed):
    J = []
    for pr in XF_PROGS:
        for mode in ("liveness", "crawler"):
            J.append(xf_job(pr, mode, blocks=10 if tier == "quick" else 14))
    return J


PROPS["C18"] = dict(
    jobs=c18_jobs,
    explanation="live_and_dead_analysis and assertion_crawler run on each skeleton; for every block visit of every interpreter execution and every variable reported dead at the end of the block (resp. not reported for an assertion at the block entry) a twin execution with that variable replaced by a fresh symbol is run along the same route: "
                "z3 decides that no later condition, assertion outcome or function output changes (self-composition), for all initial states, constants and perturbation values.",
    bounds={"quick": "17 skeletons, executions of <= 10 block visits, every block visit x every dead / unreported variable", "thorough": "<= 14 block visits"},
    outside=["inter-procedural assertion crawler (summaries)", "array/reference statements", "programs outside the family"],
    assumptions=E2_ASSUME)

# ---------------------------------------------------------------- C12: exactness on the domain's own language
def c12_jobs(tier, seed):
    J = []
    rng = random.Random(120 + seed)
    zkinds = ["c.1.0", "c.0.1", "c.2.0", "c.0.2", "c.1.2", "c.2.1"]
    ikinds = ["c.1.0", "c.0.1", "c.2.0", "c.0.2"]
    curated = ["c.1.2", "c.1.0,c.0.1", "c.1.2,c.2.1", "c.1.0,c.2.1,c.0.2", "c.1.2,c.2.0,fgt.2", "c.1.0,c.0.1,c.2.1,fgt.1", "c.1.0,c.0.1,cpy,swp,c.2.0,c.0.2,join",
               "c.0.1,c.2.0,swp,c.0.1,c.2.0,join", "c.1.2,c.1.0,swp,c.1.2,c.0.2,join", "c.1.2,cpy,swp,c.2.1,meet", "c.1.0,c.0.2,swp,c.1.2,c.2.1,meet", "c.1.2,c.2.1,c.1.0,cpy,fgt.1,swp,join"]

    def gen(kinds, n):
        out = []
        for _ in range(n):
            a = rng.sample(kinds, rng.choice([1, 2, 2, 3]))
            b = rng.sample(kinds, rng.choice([1, 2, 2]))
            op = rng.choice(["join", "join", "meet", "fgt", "none"])
            if op in ("join", "meet"):
                out.append(",".join(b + ["swp"] + a + [op]))
            elif op == "fgt":
                out.append(",".join(a + ["fgt.%d" % rng.choice([1, 2])]))
            else:
                out.append(",".join(a))
        return out
    n = 30 if tier == "quick" else 400
    for s in curated + gen(zkinds, n):
        J.append(Job("exact", {"seq": s}, defines=("DOM=2",), budget=400, what="zones (bignum weights) exact on %s" % s, witnesses=1))
    for s in (curated[:8] + gen(zkinds, n // 3)):
        for d in (3, 4) if tier == "quick" else (3, 4, 24):
            args = {"seq": s}
            if d in MACHINE_WEIGHT:
                # every int64 weight (and the probe constant) is concretised: short sequences, small constants
                if s.count("c.") > (2 if tier == "quick" else 3):
                    continue
                args["cr"] = 1 if tier == "quick" else 2
            J.append(Job("exact", args, defines=("DOM=%d" % d,), budget=600, what="%s exact on %s" % (DOMS[d][0], s), witnesses=1, soft=True))
    for s in ["c.1.0,c.0.1", "c.1.0,c.2.0,c.0.1", "c.1.0,c.0.1,cpy,swp,c.1.0,c.0.1,join", "c.1.0,swp,c.1.0,c.0.2,meet", "c.1.0,c.0.1,fgt.1"] + gen(ikinds, n // 3):
        J.append(Job("exact", {"seq": s}, defines=("DOM=1",), budget=300, what="intervals exact on %s" % s, witnesses=1))
    octs = ["o.p.1.p.2", "c.1.2", "o.p.1.m.2,o.m.1.p.2", "o.p.1.p.2,fgt.2"] + (["o.p.1.p.2,o.m.1.m.2", "o.p.1.p.2,c.1.2", "o.p.1.p.2,swp,o.p.1.m.2,meet"] if tier == "thorough" else [])
    for s in octs:
        J.append(Job("exact", {"seq": s, "oct": 1, "cr": 2}, defines=("DOM=5",), budget=900, what="octagons exact on %s (constants in +-2)" % s, witnesses=1, shards=4, shard_depth=6))
    J.append(Job("exact", {"seq": "o.p.1.p.2,swp,o.p.1.m.2,meet", "oct": 1, "cr": 1}, defines=("DOM=5",), budget=900, what="octagon meet (known finding F21: only soundness is required)", witnesses=1))
    # liftings never report looser bounds than their base on straight-line numerical code
    straight = [s for s in gen_core_straight()]
    for d in (9, 11, 12, 13, 14, 16, 17, 18, 20, 21):
        for s in straight[d % 2::2] if tier == "quick" else straight:
            J.append(dom_job(d, s, "c12l", budget=400, tier=tier))
    return J


def gen_core_straight():
    out = []
    for s in gen.core():
        ops = [gen.opname(o) for o in s.split(",")]
        if any(o in ("cpy", "cpyc", "swp", "join", "joineq", "meet", "meeteq", "wid", "widt", "nar", "leq", "top", "ren", "exp") for o in ops):
            continue
        out.append(s)
    return out


PROPS["C12"] = dict(
    jobs=c12_jobs,
    explanation="Exactness of intervals, zones (split_dbm with bignum and int64 weights, sparse_dbm) and octagons on their own constraint language: in-language constraints with SYMBOLIC constants are added to the real domain, interleaved with forget, copy, join and meet; the reference is a difference-bound matrix over solver terms (octagons: tight closure = shortest paths + integer tightening + strong coherence); "
                "z3 decides for all constants: is_bottom <=> unsatisfiable, at(v) bounds = tightest implied bounds, entails(x_i - x_j <= q) <=> implied (fresh q), join = least value above both, meet/forget exact. Liftings (flat Boolean, array smashing/adaptive, reduced products, powerset, value partitioning, packing, term, fixed_tvpi) vs their base domain on straight-line histories: bounds at least as tight.",
    bounds={"quick": "2 variables; 12 curated + 30 generated constraint sequences (<= 3+2 constraints, one lattice operation) on zones with unbounded constants; a third of them on int64 zones / sparse_dbm (constants +-3); intervals; 5 octagon sequences with constants in +-2; 10 liftings x half of the straight-line core histories",
            "thorough": "400 generated sequences; more octagon sequences"},
    outside=["more than 2 variables", "octagon constants beyond +-2 (every int64 weight is concretised)", "octagon meet exactness (known finding F21)", "sequences with more than one lattice operation"],
    assumptions=E2_ASSUME + ["the reference difference-bound matrix (Floyd-Warshall; for octagons the tight closure of Bagnara-Hill-Zaffanella) written in sym/h/exact.cpp is the specification of exactness"])

# ---------------------------------------------------------------- C14: array domains
ARR_CORE = [
    "init,loadc.0", "init,storec.1,loadc.1,loadc.0", "init,idx,stores,loads,loadc.2", "init,storec.0,idx,stores,loadc.0", "init,range.0.1,loadc.2,loadc.0",
    "init,storec.1,asg,loadb.1,storec.1,loadb.1,loadc.1", "init,storec.0,cpy,storec.0,join,loadc.0", "initv,idx,storev,loads", "init,storec.0,storec.1,storec.0,loadc.0,loadc.1",
    "init,idx.1.2,stores,loadc.0,loadc.1", "init,storec.2,idx,stores,cpy,storec.2,wid,loadc.2", "init,idx,storev,idx,loads", "init,storec.1,idx,loads,asg,idx,stores,loadb.1,loadc.1",
    "init,range.1.2,idx.0.1,stores,loadc.1", "storec.0,loadc.0", "init,storec.0,swp,init,storec.0,join,loadc.0,loadc.1",
    # two distinct value variables: the relation between the summary and the first one must not survive a store of the second
    "initv,idx,storew,loads,loadc.0", "initv,rangew.0.1,loadc.1,loadc.2", "initv,idx.1.2,storew,idx,loads",
]
ARR_PARAMS = [{}, {"smashable": "false", "nonzero": "false", "maxsmash": 2, "maxsize": 2}, {"smashable": "true", "nonzero": "false", "maxsmash": 2, "maxsize": 3},
              {"smashable": "true", "nonzero": "true", "maxsmash": 1, "maxsize": 2}, {"smashable": "false", "nonzero": "true", "maxsmash": 64, "maxsize": 64}]


def arr_histories(rng, n):
    """well-formed histories only: arrays are initialised before use, the index variable is set before symbolic accesses"""
    out = []
    for _ in range(n):
        k = rng.randint(3, 7)
        s = [rng.choice(["init", "initv", "init"])]
        has_idx = has_b = False
        for _ in range(k):
            ops = ["storec.0", "storec.1", "storec.2", "idx", "idx.0.1", "idx.1.2", "range.0.1", "range.1.2", "range.0.2", "rangew.0.1", "rangew.1.2", "loadc.0", "loadc.1", "loadc.2", "asg", "cpy", "swp", "join", "wid"]
            if has_idx:
                ops += ["stores", "storev", "storew", "loads", "stores", "loads"]
            if has_b:
                ops += ["asgba", "loadb.0", "loadb.1"]
            o = rng.choice(ops)
            if o in ("swp",) :
                continue  # the other abstract state may not have the same arrays initialised
            if o.startswith("idx"):
                has_idx = True
            if o == "asg":
                has_b = True
            s.append(o)
        s.append(rng.choice(["loadc.0", "loadc.1"] + (["loads"] if has_idx else [])))
        out.append(",".join(s))
    return out


def c14_jobs(tier, seed):
    J = []
    rng = random.Random(140 + seed)
    hist = ARR_CORE + arr_histories(rng, 20 if tier == "quick" else 120)
    doms = [20, 21, 26, 27]
    for hi, s in enumerate(hist):
        soft = hi >= len(ARR_CORE)
        for n in (1, 3) if tier == "quick" else (1, 2, 3, 4):
            if n == 1:
                s1 = ",".join(o.replace(".1", ".0").replace(".2", ".0") if not o.startswith("idx") else "idx" for o in s.split(","))
            else:
                s1 = s
            for d in doms:
                plist = ARR_PARAMS if d in (21, 27) else [{}]
                if tier == "quick":
                    plist = plist if (d == 21 and not soft) else [plist[(hi + d) % len(plist)]]
                for p in plist:
                    args = dict(p)
                    args.update({"seq": s1, "n": n})
                    J.append(Job("arr", args, defines=("DOM=%d" % d,), budget=300, what="%s, %d cells, params %s: %s" % (DOMS.get(d, ("array domain over zones",))[0], n, p or "default", s1), witnesses=1, soft=soft))
    return J


DOMS[28] = ("region_domain<interval_domain>", {})
DOMS[29] = ("region_domain<split_dbm>", {})
DOMS[26] = ("array_smashing<split_dbm>", {})
DOMS[27] = ("array_adaptive_domain<split_dbm>", {})
PROPS["C14"] = dict(
    jobs=c14_jobs,
    explanation="array_smashing<Base> and array_adaptive_domain<Base> (Base = intervals, zones) are driven by histories of array_init, strong/weak array_store with constant and symbolic indices, array_store_range, array_assign, join, widening and array_load, next to a concrete word-level array (cells = solver terms, symbolic index = a symbolic cell number); "
                "after every load z3 decides that the concrete value read is in at(lhs) and that every exported constraint over the scalar variables (index, loaded value, two value variables) holds, and after every operation that the state is not bottom, for all stored values, initial contents and index values; every history is run under several array_adaptive parameter settings (smashable or not, smashing at non-zero offsets, small cell / size limits).",
    bounds={"quick": "arrays of 1 and 3 cells of 4 bytes; 16 curated + 20 generated histories (<= 9 operations); array_adaptive<intervals> under 5 parameter settings for the curated histories, one setting otherwise; is_strong_update only for one-cell arrays (the documented contract)",
            "thorough": "1-4 cells, 120 generated histories, all parameter settings on both adaptive domains"},
    outside=["arrays with non-uniform element sizes (outside the documented word-level assumption)", "arrays of more than 4 cells", "Boolean arrays, arrays inside regions", "backward array operations"],
    assumptions=E2_ASSUME)

# ---------------------------------------------------------------- C09 (top-down inter), C10 (bottom-up + top-down)
INTER_PROGS = ["call1", "overwrite", "twice", "rec", "mutual", "loopcall", "absf"]
INTER_SYM = dict(call1=["0,1"], overwrite=["0,1"], twice=["1,2", "0,3"], rec=["0,1", "0,2", "1,2"], mutual=["0,1", "0,2"], loopcall=["0,1"], absf=["0,1"])


def inter_job(prog, sym, dom=1, bu=None, budget=400, **kw):
    args = {"prog": prog, "sym": sym}
    if dom in MACHINE_WEIGHT:
        args["range"] = 3  # int64 weights: constants within +-3 of the defaults (overflow of machine weights is outside the claim)
    args.update(kw)
    defs = ("DOM=%d" % dom,) + (("BU=%d" % bu,) if bu else ())
    what = "%s on %s, %s, %s" % ("bottom_up_inter_analyzer" if bu else "top_down_inter_analyzer", prog, DOMS[dom][0],
                                 " ".join("%s=%s" % kv for kv in sorted(kw.items())) or "default parameters")
    if bu:
        what += ", summary domain %s" % ("intervals" if bu == 1 else "zones")
    return Job("inter", args, defines=defs, budget=budget, what=what, witnesses=1)


def c09_jobs(tier, seed):
    J = []
    doms = (1, 2) if tier == "quick" else (1, 2, 12, 5)
    for d in doms:
        for pr in INTER_PROGS:
            syms = INTER_SYM[pr] if (d == 1 or tier != "quick") else INTER_SYM[pr][:1]
            for sym in syms:
                recs = (0, 1) if pr in ("rec", "mutual") else (0,)
                for rec in recs:
                    J.append(inter_job(pr, sym, d, rec=rec))
        # bounded calling contexts, approximate reuse, widening parameters
        J.append(inter_job("twice", "1,2", d, ctx=1))      # known finding F23
        J.append(inter_job("twice", "1,2", d, ctx=2))
        J.append(inter_job("twice", "1,2", d, ctx=3, exact=0))
        J.append(inter_job("twice", "0,3", d, exact=0))
        J.append(inter_job("call1", "0,1", d, ctx=1, exact=0))
        J.append(inter_job("loopcall", "0,1", d, exact=0))
        J.append(inter_job("loopcall", "0,1", d, wd=2, di=0))
        J.append(inter_job("rec", "0,2", d, rec=1, wd=2, di=0))
        J.append(inter_job("mutual", "0,2", d, rec=1, ctx=2))
        # nested recursive components  main (f1 (f2 g)); deeper executions are needed to return from f1(4)
        for (sym, rec) in (("", 1), ("0", 1), ("0,2", 0)):
            if d == 1 or sym == "":
                J.append(inter_job("nest3", sym, d, rec=rec, blocks=150, depth=6))
    # region domain as the invariant domain: reference and region parameters (formals sharing names with caller variables)
    for d in (28, 29):
        J.append(inter_job("refparam", "0,1", d))
        J.append(inter_job("refparam", "0,1", d, ctx=1, exact=0))
        J.append(inter_job("overwrite", "0,1", d))
        J.append(inter_job("rec", "0,2", d, rec=1))
    if tier == "thorough":
        for pr in INTER_PROGS:
            for sym in INTER_SYM[pr]:
                for ctx in (2, 3):
                    for ex in (0, 1):
                        for rec in ((0, 1) if pr in ("rec", "mutual") else (0,)):
                            J.append(inter_job(pr, sym, 1, ctx=ctx, exact=ex, rec=rec, wd=2, di=2))
    return J


PROPS["C09"] = dict(
    jobs=c09_jobs,
    explanation="The real top_down_inter_analyzer (call_graph, restrict/extend at call sites, calling-context table with exact/approximate reuse and the bound on contexts, recursion handling, wto of every function) is run on a family of call graphs whose constants are symbolic; "
                "the reference interpreter, extended with call/return semantics, executes main with nondeterministic choices and symbolic values; z3 decides for every block visit of every function that the state lies in gamma_obs of the context-insensitive invariant of the block, and for every returning call and every stored (pre, post) summary of the callee that pre(inputs) implies post(inputs, outputs).",
    bounds={"quick": "9 call graphs (one call, reference and region parameters under the region domain, output overwriting an argument and shared variable names, three calls with different contexts, direct recursion, mutual recursion, three functions in nested recursive components, call inside a loop, callee with branches), 2 symbolic constants each, intervals and zones, max_call_contexts in {1,2,3,unbounded}, exact and approximate reuse, precise and imprecise recursion, two widening settings; executions of <= 40 block visits and call depth <= 5 (150 / 6 for the nested components)",
            "thorough": "+ intervals x zones product, octagons, every (ctx, exact, rec) combination on intervals"},
    outside=["call graphs outside the family", "array arguments; reference arguments are passed but never dereferenced by the callee (only integer variables are compared with the concrete state)", "several entry functions (only_main_as_entry=false)", "max_call_contexts=1 with three different contexts (known finding F23) and functions whose recursion never returns under analyze_recursive_functions=true (known finding F24)"],
    assumptions=E2_ASSUME)


def c10_jobs(tier, seed):
    J = []
    pairs = [(1, 2), (2, 1), (1, 1)] if tier == "quick" else [(1, 2), (2, 1), (1, 1), (2, 2), (12, 2), (5, 1)]
    for (d, bu) in pairs:
        for pr in INTER_PROGS:
            syms = INTER_SYM[pr] if (d, bu) == (1, 2) or tier != "quick" else INTER_SYM[pr][:1]
            for sym in syms:
                J.append(inter_job(pr, sym, d, bu))
        J.append(inter_job("loopcall", "0,1", d, bu, wd=2, di=0))
        J.append(inter_job("twice", "0,3", d, bu, wd=2, di=2))
        J.append(inter_job("nest3", "0", d, bu, blocks=150, depth=6))
    return J


PROPS["C10"] = dict(
    jobs=c10_jobs,
    explanation="The real bottom_up_inter_analyzer<CG, BU_Dom, TD_Dom> (bottom-up summaries in topological order of the SCC graph, summary instantiation at call sites with renaming and projection, top-down phase with call-context table) is run on the call-graph family with symbolic constants and with different summary and invariant domains; "
                "the reference interpreter executes main; z3 decides for every returning concrete call that the (inputs, outputs) pair lies in the stored summary of the callee and for every block visit that the state lies in the reported invariant of the block.",
    bounds={"quick": "8 call graphs x (summary domain, invariant domain) in {(zones, intervals), (intervals, zones), (intervals, intervals)}, 2 symbolic constants, two fixpoint settings; recursive components are analysed without summaries (as the analyzer documents) and are checked for the top-down invariants; executions of <= 40 block visits, call depth <= 5",
            "thorough": "+ (zones, zones), (zones, intervals x zones), (intervals, octagons)"},
    outside=["call graphs outside the family", "array and reference arguments", "summaries of functions in recursive components (the analyzer computes none)"],
    assumptions=E2_ASSUME)

# ---------------------------------------------------------------- C15: region / reference domain
RGN_CORE = [
    "init.0,make.0.0,st.0.0,ld.0.0",
    "init.0,make.0.0,st.0.0,idx.0.4,geps.0.1.0.0,st.1.0,ld.0.0",                       # offset that may be zero
    "init.0,make.0.0,st.0.0,gepc.0.1.0.0.0,make.0.0,st.0.0,ld.1.0",                    # re-allocation with a live alias
    "init.0,make.0.0,st.0.0,gepc.0.0.0.0.4,st.0.0,gepc.0.0.0.0.-4,ld.0.0",             # p := p + 4 ... p := p - 4
    "init.0,make.0.0,make.1.0,st.0.0,st.1.0,ld.0.0,q.0,q.1",
    "init.0,init.2,make.0.0,st.0.0,make.1.2,str.1.0,ldr.1.2,ld.2.0,q.2",               # reference stored in a region
    "init.0,init.2,make.0.0,st.0.0,make.1.2,str.1.0,make.0.0,st.0.0,ldr.1.2,ld.2.0",
    "init.0,make.0.0,st.0.0,cpy,st.0.0,join,ld.0.0",
    "init.0,make.0.0,null.1,cpy,gepc.0.1.0.0.0,join,q.1,asm.nn.1,st.1.0,ld.0.0",        # null or non-null after a join
    "init.0,init.1,make.0.0,st.0.0,rcopy.1.0,gepc.0.1.0.1.0,ld.1.1",                   # region copy
    "init.0,make.0.0,st.0.0,r2i.0.0,q.0",
    "init.0,make.0.0,gepc.0.1.0.0.4,st.0.0,st.1.0,asm.ne.0.1,ld.0.0",
    "init.0,make.0.0,st.0.0,free.0.0,q.0,ld.0.0",
    "init.0,make.0.0,st.0.0,cpy,make.1.0,st.1.0,join,st.0.0,ld.1.0",
    "init.0,make.0.0,st.0.0,cpy,make.1.0,st.1.0,wid,st.0.0,ld.1.0",
    "init.0,idx.16.32,i2r.0.0,st.0.0,idx.16.32,i2r.1.0,st.1.0,ld.0.0",                 # references made from integers
    "init.0,init.1,make.0.0,gepc.0.1.0.1.0,st.0.0,st.1.1,ld.0.0,ld.1.1",               # same address, two regions
    "init.0,null.0,make.0.0,q.0,asm.nn.0,st.0.0,r2i.0.0,ld.0.0",                       # null, then allocated
    "init.0,make.0.0,stv.0.0,idx.-4.4,geps.0.1.0.0,stv.1.0,ld.0.0,ld.1.0",
    "init.0,init.1,make.0.0,make.1.1,st.0.0,st.1.1,cpy,gepc.1.0.1.0.0,st.0.0,join,ld.0.0",  # p points into R0 or (after the join) into R1's object
    "init.0,make.0.0,make.1.0,st.0.0,st.1.0,sel.2.0.0.0.1.0,q.2,st.2.0,ld.0.0,ld.1.0",    # select between two references
    "init.0,make.0.0,st.0.0,seln.1.0.0.0,q.1,asm.nn.1,st.1.0,ld.0.0",                     # select between a reference and null
    "init.0,make.0.0,st.0.0,seln.0.0.0.0,q.0,asm.nn.0,ld.0.0",
    # ordering constraints between references with offsets (p REL q + k), also negated, after the base domain knows the distance
    "init.0,make.0.0,gepc.0.1.0.0.8,gepc.0.2.0.0.16,asmo.ge.1.2.-8,st.1.0,ld.1.0", "init.0,make.0.0,gepc.0.1.0.0.8,asmo.gt.1.0.s,st.0.0,r2i.1.0,ld.0.0",
    "init.0,make.0.0,gepc.0.1.0.0.8,asmo.le.0.1.s,asmo.lt.1.0.4.neg,st.0.0,ld.0.0", "init.0,make.0.0,idx.0.8,geps.0.1.0.0,asmo.eq.1.0.s,asmo.ne.1.0.4,st.1.0,ld.1.0",
    "init.0,make.0.0,gepc.0.1.0.0.4,asmo.ge.0.1.s.neg,asmo.le.1.0.s.neg,st.0.0,ld.0.0",
]
RGN_PARAMS = [{}, {"deref": "true"}, {"allocs": "false", "dealloc": "false", "tags": "false"}, {"skipunk": "false", "deref": "true"}]
RGN_BASE = {1: "interval_domain", 2: "split_dbm_domain (zones)", 3: "flat_boolean_numerical_domain<interval_domain>", 4: "sign_constant_domain"}


def rgn_histories(rng, n):
    """well-formed histories: regions are initialised first, references are defined before use and are used
    with the region they point into, every history ends with a load from a region that was stored to"""
    out = []
    for _ in range(n):
        s = ["init.0", "init.1"]
        use_rr = rng.random() < 0.35
        if use_rr:
            s.append("init.2")
        reg = {}      # ref -> region it points into (None: null)
        stored = set()
        has_idx = False
        rr_stored = None   # (holder ref, region of the stored ref)
        k = rng.randint(4, 9)
        for _ in range(k):
            ops = ["make", "make", "idx"]
            live = [p for p in reg if reg[p] is not None and reg[p] != 2]
            if live:
                ops += ["gepc", "gepc", "st", "st", "stv", "q", "r2i", "free", "cpy", "join", "wid", "asm", "sel", "seln"]
                if has_idx:
                    ops += ["geps", "geps", "i2r"]
                if [p for p in live if reg[p] in stored]:
                    ops += ["ld", "ld"]
                if use_rr:
                    ops += ["str"]
                if rr_stored:
                    ops += ["ldr"]
            if len(reg) < 3:
                ops += ["null"]
            o = rng.choice(ops)
            if o == "make":
                p = rng.randrange(3); g = rng.choice([0, 0, 1])
                s.append("make.%d.%d" % (p, g)); reg[p] = g
            elif o == "idx":
                lo = rng.choice([0, 0, 1, 4, -4]); hi = lo + rng.choice([0, 1, 4, 8])
                s.append("idx.%d.%d" % (lo, hi)); has_idx = True
            elif o in ("gepc", "geps"):
                p = rng.choice(live); q = rng.randrange(3)
                g2 = reg[p] if rng.random() < 0.8 else 1 - reg[p]
                if o == "gepc":
                    s.append("gepc.%d.%d.%d.%d.%d" % (p, q, reg[p], g2, rng.choice([0, 0, 4, 8, -4])))
                else:
                    s.append("geps.%d.%d.%d.%d" % (p, q, reg[p], g2))
                reg[q] = g2
            elif o in ("st", "stv"):
                p = rng.choice(live); s.append("%s.%d.%d" % (o, p, reg[p])); stored.add(reg[p])
            elif o == "ld":
                p = rng.choice([p for p in live if reg[p] in stored]); s.append("ld.%d.%d" % (p, reg[p]))
            elif o in ("sel", "seln"):
                p = rng.choice(live); l = rng.randrange(3)
                if o == "seln":
                    s.append("seln.%d.%d.%d.%d" % (l, reg[p], p, reg[p])); reg[l] = reg[p]
                else:
                    qs = [x for x in live if reg[x] == reg[p]]
                    q = rng.choice(qs)
                    s.append("sel.%d.%d.%d.%d.%d.%d" % (l, reg[p], p, reg[p], q, reg[q])); reg[l] = reg[p]
            elif o == "q":
                s.append("q.%d" % rng.choice(list(reg)))
            elif o == "r2i":
                p = rng.choice(live); s.append("r2i.%d.%d" % (p, reg[p]))
            elif o == "i2r":
                p = rng.randrange(3); g = rng.choice([0, 1]); s.append("i2r.%d.%d" % (p, g)); reg[p] = g
            elif o == "free":
                p = rng.choice(live); s.append("free.%d.%d" % (p, reg[p]))
            elif o == "null":
                p = rng.choice([x for x in range(3) if x not in reg]); s.append("null.%d" % p); reg[p] = None
            elif o == "asm":
                p = rng.choice(live)
                others = [x for x in live if x != p]
                kind = rng.choice(["nn", "eq", "ne", "o", "o"]) if others else "nn"
                if kind == "o":
                    s.append("asmo.%s.%d.%d.%s%s" % (rng.choice(["eq", "ne", "lt", "le", "gt", "ge"]), p, rng.choice(others), rng.choice(["s", "0", "4", "-8"]), rng.choice(["", ".neg"])))
                else:
                    s.append("asm.nn.%d" % p if kind == "nn" else "asm.%s.%d.%d" % (kind, p, rng.choice(others)))
            elif o == "str":
                holders = [p for p in reg if reg[p] == 2]
                if not holders:
                    h = rng.choice([x for x in range(3)])
                    if h in live and len(live) == 1:
                        continue
                    s.append("make.%d.2" % h); reg[h] = 2
                    live = [p for p in reg if reg[p] is not None and reg[p] != 2]
                    if not live:
                        continue
                    holders = [h]
                h = rng.choice(holders); p = rng.choice(live)
                s.append("str.%d.%d" % (h, p)); rr_stored = (h, reg[p])
            elif o == "ldr":
                h, g = rr_stored
                if reg.get(h) != 2:
                    continue
                q = rng.choice([x for x in range(3) if x != h]); s.append("ldr.%d.%d" % (h, q)); reg[q] = g
            elif o in ("cpy", "join", "wid"):
                if o == "cpy" or "cpy" in s:
                    s.append(o)
        cand = [p for p in reg if reg[p] is not None and reg[p] != 2 and reg[p] in stored]
        if not cand:
            continue
        p = rng.choice(cand)
        s.append("ld.%d.%d" % (p, reg[p]))
        out.append(",".join(s))
    return out


def c15_jobs(tier, seed):
    J = []
    rng = random.Random(150 + seed)
    hist = RGN_CORE + rgn_histories(rng, 80 if tier == "quick" else 600)
    for hi, s in enumerate(hist):
        gen = hi >= len(RGN_CORE)
        for rb in ((1, 2, 3, 4) if tier != "quick" else ((1, 2) if not gen else (1 + (hi % 4),))):
            plist = RGN_PARAMS if (tier != "quick" or (not gen and rb == 1)) else [RGN_PARAMS[(hi + rb) % len(RGN_PARAMS)]]
            for p in plist:
                args = dict(p)
                args["seq"] = s
                J.append(Job("rgn", args, defines=("RB=%d" % rb,), budget=200, what="region_domain<%s>, params %s: %s" % (RGN_BASE[rb], p or "default", s), witnesses=1, soft=gen, allow_vacuous=gen))
    return J


PROPS["C15"] = dict(
    jobs=c15_jobs,
    explanation="region_domain<Params> over four base domains is driven by histories of region_init, ref_make, ref_gep (constant and symbolic offsets, within and across regions), ref_store / ref_load of integers and of references, ref_free, ref_assume (null tests, equalities and orderings p REL q + k with constant and symbolic offsets, and their negations), ref_to_int / int_to_ref, select_ref, region_copy, join and widening, next to a concrete memory "
                "(per region the list of (address, value) writes; objects are symbolic, pairwise distant, non-null base addresses; a reference is an address plus its allocation site); z3 decides after every load that the value read from a previously written cell is in at(lhs), after every reference load / query that a definite is_null_ref answer is right and that a reported set of allocation sites contains the actual one, "
                "that ref_to_int covers the address, and that no operation turns a reachable state into bottom - for all stored values, base addresses, offsets and join choices.",
    bounds={"quick": "3 reference variables, 2 integer regions + 1 region of references, 28 curated + 80 generated histories (<= 12 operations), base domains intervals / zones / flat Boolean x intervals / sign-constant, 4 region_domain_params settings on the curated histories (one setting otherwise), offsets in [-4, 32]", "thorough": "600 generated histories, every base domain and parameter setting"},
    outside=["reads of never-written cells (the path ends)", "region_cast and unknown-typed regions", "Boolean and array regions", "tag queries (get_tags) and the deallocation intrinsics", "objects closer than 64 bytes / offsets beyond 32 (out-of-bounds pointer arithmetic)"],
    assumptions=E2_ASSUME + ["concrete memory model: word-level addressing, a store through reference p in region R writes cell (R, address(p)); distinct allocations have distinct non-null addresses"])
