"""Per-property job lists (what is explored in each tier) and the text that goes into the evidence."""
from run import Job


class E1Job:
    """clang -> LLVM IR -> C -> CBMC job (see e1/)."""

    def __init__(self, harness, entry, what="", unwind=None, timeout=300, defines=(), args=None):
        self.harness, self.entry, self.what, self.unwind, self.timeout = harness, entry, what, unwind, timeout
        self.defines = tuple(defines)
        self.args = dict(args or {})
        self.known = ()

    @property
    def name(self):
        return "E1:%s:%s" % (self.harness, self.entry)


def run_e1(build, job, workdir):
    import e1.pipeline as p
    return p.run(build, job, workdir)


E2_ASSUME = [
    "engine E2: the symbolic ikos::z_number of sym/shadow/crab/numbers/bignums.hpp models GMP integers as z3 Int terms (validated on every run by replaying solver models on a native build with the real z_number/GMP and comparing every number crab computed)",
    "CRAB_ERROR ends a path (crab yields no result there); such paths are counted as aborted and are outside the claim",
    "z3 4.8.12 is trusted for unsat answers; unknown or timeout is never counted as success",
    "hash() of the symbolic number is constant (hash-order independent code only); printing is a no-op on symbolic values",
]

PROPS = {}

# ---------------------------------------------------------------- C08
def c08_jobs(tier, seed):
    J = []
    R = 8 if tier == "quick" else 24
    for op in ("add", "sub", "neg", "join", "meet", "widen", "narrow", "leq", "member", "halfline", "trim"):
        J.append(Job("c08_itv", {"op": op}, what="interval<z_number> %s: shapes x unbounded symbolic bounds" % op, budget=300))
    J.append(Job("c08_itv", {"op": "mul"}, what="interval * : soundness + smallest interval, unbounded bounds", budget=600))
    for op in ("div", "srem", "urem", "udiv"):
        J.append(Job("c08_itv", {"op": op, "range": R}, what="z_interval %s (lib/interval.cpp), bounds in +-%d" % (op, R), budget=900,
                     shards=8 if op == "div" else 1, shard_depth=5))
    for op in ("and", "or", "xor"):
        J.append(Job("c08_itv", {"op": op, "range": R}, what="z_interval %s, bounds in +-%d, values in 12-bit two's complement" % (op, R), budget=900))
    for op in ("shl", "ashr", "lshr"):
        J.append(Job("c08_itv", {"op": op, "range": R, "krange": 4 if tier == "quick" else 6}, what="z_interval %s" % op, budget=900))
    return J


PROPS["C08"] = dict(
    jobs=c08_jobs,
    explanation="Every operation of ikos::interval<z_number>/bound<z_number> (templates of interval_impl.hpp and the z_number specialisations of lib/interval.cpp, compiled unmodified) is executed symbolically for operands of symbolic shape and symbolic bounds; the solver decides op(x,y) in gamma(a op# b) for all x in gamma(a), y in gamma(b), and tightness of + - neg * join meet.",
    bounds={"quick": "interval bounds unbounded for + - neg * and lattice ops; +-8 for / rem bitwise shifts (shift amount <= 4); bitwise values in 12-bit two's complement",
            "thorough": "as quick with +-24 and shift amount <= 6"},
    outside=["interval<q_number> (rationals): no symbolic rational class", "bounds beyond the stated ranges for division/bitwise/shift operations"],
    assumptions=E2_ASSUME,
)
NA = {}
