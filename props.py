"""Per-property job lists (what is explored in each tier) and the text that goes into the evidence."""
from run import Job


class E1Job:
    """clang -> LLVM IR -> C -> CBMC job (see e1/)."""

    def __init__(self, harness, entry, what="", unwind=None, timeout=300, defines=(), args=None):
        self.harness, self.entry, self.what, self.unwind, self.timeout = harness, entry, what, unwind, timeout
        self.defines = tuple(defines)
        self.args = dict(args or {})
        self.known = ()

    @property
    def name(self):
        return "E1:%s:%s" % (self.harness, self.entry)


def run_e1(build, job, workdir):
    import e1.pipeline as p
    return p.run(build, job, workdir)


E2_ASSUME = [
    "engine E2: the symbolic ikos::z_number of sym/shadow/crab/numbers/bignums.hpp models GMP integers as z3 Int terms (validated on every run by replaying solver models on a native build with the real z_number/GMP and comparing every number crab computed)",
    "CRAB_ERROR ends a path (crab yields no result there); such paths are counted as aborted and are outside the claim",
    "z3 4.8.12 is trusted for unsat answers; unknown or timeout is never counted as success",
    "hash() of the symbolic number is constant (hash-order independent code only); printing is a no-op on symbolic values",
]

PROPS = {}

# ---------------------------------------------------------------- C08
def c08_jobs(tier, seed):
    J = []
    R = 8 if tier == "quick" else 24
    for op in ("add", "sub", "neg", "join", "meet", "widen", "narrow", "leq", "member", "halfline", "trim"):
        J.append(Job("c08_itv", {"op": op}, what="interval<z_number> %s: shapes x unbounded symbolic bounds" % op, budget=300))
    J.append(Job("c08_itv", {"op": "mul"}, what="interval * : soundness + smallest interval, unbounded bounds", budget=600))
    for op in ("div", "srem", "urem", "udiv"):
        J.append(Job("c08_itv", {"op": op, "range": R}, what="z_interval %s (lib/interval.cpp), bounds in +-%d" % (op, R), budget=900,
                     shards=8 if op == "div" else 1, shard_depth=5))
    for op in ("and", "or", "xor"):
        J.append(Job("c08_itv", {"op": op, "range": R}, what="z_interval %s, bounds in +-%d, values in 12-bit two's complement" % (op, R), budget=900))
    for op in ("shl", "ashr", "lshr"):
        J.append(Job("c08_itv", {"op": op, "range": R, "krange": 4 if tier == "quick" else 6}, what="z_interval %s" % op, budget=900))
    return J


PROPS["C08"] = dict(
    jobs=c08_jobs,
    explanation="Every operation of ikos::interval<z_number>/bound<z_number> (templates of interval_impl.hpp and the z_number specialisations of lib/interval.cpp, compiled unmodified) is executed symbolically for operands of symbolic shape and symbolic bounds; the solver decides op(x,y) in gamma(a op# b) for all x in gamma(a), y in gamma(b), and tightness of + - neg * join meet.",
    bounds={"quick": "interval bounds unbounded for + - neg * and lattice ops; +-8 for / rem bitwise shifts (shift amount <= 4); bitwise values in 12-bit two's complement",
            "thorough": "as quick with +-24 and shift amount <= 6"},
    outside=["interval<q_number> (rationals): no symbolic rational class", "bounds beyond the stated ranges for division/bitwise/shift operations"],
    assumptions=E2_ASSUME,
)
NA = {}

# ---------------------------------------------------------------- domain-operation histories (C03, C04, C05, C16)
import random
import gen

# DOM id -> (name, extra args, weight class)
DOMS = {
    1: ("interval_domain", {}), 2: ("split_dbm(bignum weights)", {}), 3: ("split_dbm(default int64 weights)", {"cr": 6}),
    4: ("sparse_dbm(bignum weights)", {}), 5: ("split_oct(default int64 weights)", {"cr": 6}), 6: ("constant_domain", {}),
    7: ("sign_domain", {}), 8: ("sign_constant_domain", {}), 9: ("numerical_congruence_domain<intervals>", {}),
    10: ("dis_interval_domain", {}), 11: ("flat_boolean_numerical_domain<intervals>", {}), 12: ("reduced_product<intervals,zones>", {}),
    13: ("powerset_domain<intervals>", {}), 14: ("product_value_partitioning_domain<intervals>", {}),
    15: ("lookahead_widening_domain<split_oct>", {"cr": 6}), 16: ("numerical_packing_domain<intervals>", {}),
    17: ("fixed_tvpi_domain<zones>", {}), 18: ("term_domain<intervals>", {}), 19: ("uf_domain", {}),
    20: ("array_smashing<intervals>", {}), 21: ("array_adaptive_domain<intervals>", {}),
    22: ("abstract_domain_ref over intervals", {}), 23: ("abstract_domain_ref over zones", {}),
    24: ("split_dbm(safe int64 weights)", {"cr": 6}), 25: ("congruence_domain", {}),
}
BITW_OPS = (".and.", ".or.", ".xor.")


def dom_job(dom, seq, mode="sound", budget=120, soft=False, what=""):
    args = dict(DOMS[dom][1])
    args["seq"] = seq
    if mode != "sound":
        args["mode"] = mode
    if any(b in seq for b in BITW_OPS) and "cr" not in args:
        args["cr"] = 16
    return Job("dom", args, defines=("DOM=%d" % dom,), budget=budget, what=what or ("%s: %s" % (DOMS[dom][0], seq)), witnesses=1,
               soft=soft, allow_vacuous=soft)


def hist_jobs(tier, seed, doms_full, doms_light, focus=None, ngen_quick=24, ngen_thorough=400, mode="sound"):
    J = []
    core = gen.core()
    if focus:
        core = [s for s in core if any(gen.opname(o) in focus for o in s.split(","))]
    for d in doms_full:
        for s in core:
            J.append(dom_job(d, s, mode, budget=240 if tier == "quick" else 900))
    stride = 3 if tier == "quick" else 1
    for d in doms_light:
        for s in core[d % stride::stride]:
            J.append(dom_job(d, s, mode, budget=240 if tier == "quick" else 900))
    rng = random.Random(1000 + seed)
    n = ngen_quick if tier == "quick" else ngen_thorough
    hs = gen.histories(rng, n, 3 if tier == "quick" else 4, focus)
    for i, (shape, s) in enumerate(hs):
        ds = doms_full if tier == "thorough" else [doms_full[i % len(doms_full)]]
        for d in ds:
            J.append(dom_job(d, s, mode, budget=60 if tier == "quick" else 300, soft=True))
        if doms_light:
            d = doms_light[i % len(doms_light)]
            J.append(dom_job(d, s, mode, budget=60 if tier == "quick" else 300, soft=True))
    return J


C03_FULL = [1, 2]
C03_LIGHT = [3, 4, 5, 6, 7, 8, 9, 10, 11, 12, 13, 14, 15, 16, 17, 18, 19, 20, 21, 24, 25]


def c03_jobs(tier, seed):
    return hist_jobs(tier, seed, C03_FULL, C03_LIGHT)


HIST_EXPL = ("Two abstract values are built from top by an operation history run on the REAL domain implementation; kinds of "
             "operations, variables and multiplicative coefficients are enumerated (curated core list + seeded grammar-based generator), every additive "
             "constant and bound left symbolic (<= 3-4 per history) is decided by the solver for all values.  A concrete state is carried along by the corresponding "
             "concrete operations; after every step z3 decides state in gamma_obs(value): !is_bottom, state[v] in at(v), every constraint of "
             "to_linear_constraint_system() holds - for both values, and every observation of the value not operated on is unchanged.")
HIST_BOUNDS = {"quick": "2 program variables (+2 spare), histories of <= 8 operations from the core list on intervals and zones (bignum weights), every 3rd core history on 21 further domain configurations, 24 generated histories (seeded); <= 3 symbolic constants per history (unbounded, or +-6 for machine-weight DBMs, +-16 around bitwise ops); multiplicative/shift constants in +-3",
               "thorough": "all core histories on all 25 domain configurations, 400 generated histories with <= 4 symbolic constants"}
HIST_OUT = ["histories longer than 8 operations, more than 2+2 variables", "constants beyond the stated ranges for machine-weight DBM domains (int64 overflow is not explored)",
            "int_conv operations (crab's numerical domains treat casts as assignments of mathematical integers by design)", "third-party domains (Apron, Elina, Boxes/LDD, PPLite are not built in this tree)", "rationals"]

PROPS["C03"] = dict(jobs=c03_jobs, explanation=HIST_EXPL, bounds=HIST_BOUNDS, outside=HIST_OUT, assumptions=E2_ASSUME)
