#!/usr/bin/env python3
"""Driver of the /verif checks:  python3 run.py --property Cxx --tier quick|thorough

Rebuilds everything from /repo's current working tree, runs the property's jobs (engine E2:
symbolic execution of the real templates through a solver-backed z_number; engine E1: clang ->
LLVM IR -> C -> CBMC for number-concrete kernels), validates solver models against a native
build of the real code, writes /verif/evidence/<id>.json.
Exit 0: property held on everything explored.  Exit 1 + `VIOLATION property=<id> replay=<path>`:
a solver counterexample reproduced on the real build.  Exit 2: the check itself could not
conclude (broken harness, encoding mismatch, timeout) - never reported as success.
"""
import argparse, concurrent.futures as cf, hashlib, json, os, random, re, shutil, subprocess, sys, tempfile, threading, time

VERIF = os.path.dirname(os.path.abspath(__file__))
REPO = os.environ.get("VERIF_REPO", "/repo")
WORK = os.path.join(VERIF, ".work")
SYM = os.path.join(VERIF, "sym")
NCPU = int(os.environ.get("VERIF_JOBS", "16"))
BUDGET_FACTOR = int(os.environ.get("VERIF_BUDGET_FACTOR", "3"))
SECOND_N = int(os.environ.get("VERIF_SECOND_SOLVER_QUERIES", "3"))  # queries per job handed to cvc5 as well (0 = off)
CXX = "g++"
CXXFLAGS = ["-std=c++17", "-O1", "-g0", "-w", "-fno-var-tracking"]

sys.path.insert(0, VERIF)


def sh(cmd, **kw):
    return subprocess.run(cmd, stdout=subprocess.PIPE, stderr=subprocess.STDOUT, text=True, **kw)


def sha(*parts):
    h = hashlib.sha1()
    for p in parts:
        h.update(p if isinstance(p, bytes) else str(p).encode())
        h.update(b"\0")
    return h.hexdigest()[:16]


def tree_hash(dirs):
    h = hashlib.sha1()
    for d in dirs:
        for root, dn, fn in sorted(os.walk(d)):
            dn.sort()
            for f in sorted(fn):
                p = os.path.join(root, f)
                h.update(p.encode())
                try:
                    with open(p, "rb") as fh:
                        h.update(fh.read())
                except OSError:
                    pass
    return h.hexdigest()[:16]


class Build:
    """Content-addressed build of lib units and harnesses from /repo's current tree."""

    def __init__(self):
        self.repo_h = tree_hash([os.path.join(REPO, "include"), os.path.join(REPO, "lib")])
        self.fw_h = tree_hash([SYM])
        self.root = os.path.join(WORK, "cache", self.repo_h)
        os.makedirs(self.root, exist_ok=True)
        self._gc()
        self.inc = os.path.join(self.root, "inc")
        os.makedirs(os.path.join(self.inc, "crab"), exist_ok=True)
        cfg = os.path.join(self.inc, "crab", "config.h")
        if not os.path.exists(cfg):
            # same content as the repo's default cmake configuration (no external libraries)
            src = open(os.path.join(REPO, "include/crab/config.h.cmake")).read()
            src = re.sub(r"#cmakedefine CRAB_STATS .*", "#define CRAB_STATS TRUE", src)
            src = re.sub(r"#cmakedefine (\w+) .*", r"/* #undef \1 */", src)
            open(cfg, "w").write(src)
        self.log = []
        self._locks = {}
        self._glock = threading.Lock()

    def _lock(self, key):
        with self._glock:
            return self._locks.setdefault(key, threading.Lock())

    def _gc(self):
        base = os.path.join(WORK, "cache")
        ds = sorted((os.path.getmtime(os.path.join(base, d)), d) for d in os.listdir(base))
        for mt, d in ds[:-4]:
            if d != self.repo_h and time.time() - mt > 3 * 3600:  # another process may be using a recent one
                shutil.rmtree(os.path.join(base, d), ignore_errors=True)

    def flags(self, mode):
        f = list(CXXFLAGS)
        if mode == "sym":
            f += ["-DSX_SYM", "-I" + os.path.join(SYM, "shadow")]
        f += ["-I" + self.inc, "-I" + os.path.join(REPO, "include"), "-I" + SYM,
              "-I" + REPO]  # -I/repo lets harnesses include the repo's own tests/ sources
        return f

    def lib(self, mode):
        """static archive of /repo/lib/*.cpp for this mode (sym: all but bignums.cpp)"""
        d = os.path.join(self.root, mode + "-" + self.fw_h)
        os.makedirs(d, exist_ok=True)
        ar = os.path.join(d, "libcrab_%s.a" % mode)
        with self._lock(ar), FileLock(ar + ".lock"):  # the file lock serialises concurrent run.py processes
            return self._lib(mode, d, ar)

    def _lib(self, mode, d, ar):
        if os.path.exists(ar):
            return ar
        units = sorted(f for f in os.listdir(os.path.join(REPO, "lib")) if f.endswith(".cpp"))
        if mode == "sym":
            units = [u for u in units if u != "bignums.cpp"]
        objs = []

        def comp(u):
            o = os.path.join(d, u[:-4] + ".o")
            r = sh([CXX] + self.flags(mode) + ["-include", os.path.join(SYM, "sx.hpp"), "-c", os.path.join(REPO, "lib", u), "-o", o])
            return u, o, r
        with cf.ThreadPoolExecutor(NCPU) as ex:
            for u, o, r in ex.map(comp, units):
                if r.returncode != 0:
                    raise BrokenCheck("lib unit %s does not compile in %s mode:\n%s" % (u, mode, r.stdout[-3000:]))
                objs.append(o)
        tmp = ar + ".tmp%d" % os.getpid()
        r = sh(["ar", "rcs", tmp] + objs)
        if r.returncode != 0:
            raise BrokenCheck("ar failed: " + r.stdout)
        os.replace(tmp, ar)
        return ar

    def harness(self, name, mode, defines=()):
        src = os.path.join(SYM, "h", name + ".cpp")
        key = sha(open(src, "rb").read(), self.fw_h, mode, " ".join(defines))
        d = os.path.join(self.root, mode + "-" + self.fw_h)
        os.makedirs(d, exist_ok=True)
        exe = os.path.join(d, "%s-%s" % (name, key))
        with self._lock(exe), FileLock(exe + ".lock"):
            return self._harness(name, mode, defines, src, exe)

    def _harness(self, name, mode, defines, src, exe):
        if os.path.exists(exe):
            return exe
        lib = self.lib(mode)
        libs = ["-lz3"] if mode == "sym" else ["-lgmp"]
        tmp = exe + ".tmp%d" % os.getpid()
        t0 = time.time()
        r = sh([CXX] + self.flags(mode) + ["-D" + x for x in defines] + [src, lib, "-o", tmp] + libs)
        if r.returncode != 0:
            raise BrokenCheck("harness %s does not compile in %s mode:\n%s" % (name, mode, r.stdout[-4000:]))
        os.replace(tmp, exe)
        self.log.append("built %s[%s] %s in %.1fs" % (name, mode, " ".join(defines), time.time() - t0))
        return exe


class FileLock:
    """advisory lock shared by all run.py processes (build cache)"""

    def __init__(self, path):
        self.path = path

    def __enter__(self):
        import fcntl
        self.f = open(self.path, "w")
        fcntl.flock(self.f, fcntl.LOCK_EX)

    def __exit__(self, *a):
        import fcntl
        fcntl.flock(self.f, fcntl.LOCK_UN)
        self.f.close()


class BrokenCheck(Exception):
    pass


class Job:
    """One exhaustive exploration: harness binary + parameters."""

    def __init__(self, harness, args=None, defines=(), budget=300, shards=1, shard_depth=6, what="", witnesses=3, known=(), soft=False, allow_vacuous=False):
        self.harness, self.args, self.defines = harness, dict(args or {}), tuple(defines)
        self.budget, self.shards, self.shard_depth, self.what = budget, shards, shard_depth, what
        self.witnesses = witnesses
        self.known = tuple(known)
        self.soft, self.allow_vacuous = soft, allow_vacuous

    @property
    def name(self):
        d = ("[" + ",".join(self.defines) + "]") if self.defines else ""
        return self.harness + d + "(" + ",".join("%s=%s" % kv for kv in sorted(self.args.items())) + ")"

    def argv(self):
        return ["%s=%s" % kv for kv in sorted(self.args.items())]


def parse_result(out):
    for line in out.splitlines():
        if line.startswith("SXRESULT "):
            return json.loads(line[9:])
    return None


def run_sym(build, job, shard=None):
    exe = build.harness(job.harness, "sym", job.defines)
    # the budgets in props.py were sized on the development machine; jobs whose overrun would fail the check
    # (non-soft) get BUDGET_FACTOR times as much, so that a slower or busier machine still concludes
    budget = job.budget if job.soft else job.budget * BUDGET_FACTOR
    cmd = [exe] + job.argv() + ["--budget", str(budget), "--witnesses", str(job.witnesses)]
    for k in job.known:
        cmd += ["--known", k]
    if shard is not None:
        cmd += ["--shard", "%d/%d/%d" % (shard, job.shards, job.shard_depth)]
    # second solver: a sample of the queries z3 discharged is dumped as SMT-LIB and decided again by cvc5
    dump = None
    if SECOND_N > 0 and (shard is None or shard == 0):
        os.makedirs(WORK, exist_ok=True)
        dump = tempfile.mkdtemp(prefix="smt-", dir=WORK)
        cmd += ["--smtdump", dump, str(SECOND_N)]
    t0 = time.time()
    try:
        r = subprocess.run(cmd, stdout=subprocess.PIPE, stderr=subprocess.PIPE, text=True, timeout=budget + 120)
        out, rc = r.stdout, r.returncode
        err = r.stderr[-2000:]
    except subprocess.TimeoutExpired:
        out, rc, err = "", -9, "timeout"
    res = parse_result(out)
    second = second_solver(dump) if dump else None
    return {"job": job, "shard": shard, "rc": rc, "res": res, "wall": time.time() - t0, "stderr": err, "cmd": cmd, "second": second}


def second_solver(dump):
    """cvc5 on the dumped queries: unsat = agrees with z3; sat = disagreement (the job cannot conclude); anything else = no second opinion"""
    out = {"queries": 0, "agree": 0, "no_opinion": 0, "disagree": [], "cvc5_s": 0.0}
    try:
        for fn in sorted(os.listdir(dump)):
            out["queries"] += 1
            t0 = time.time()
            try:
                r = subprocess.run(["cvc5", "--tlimit=10000", os.path.join(dump, fn)], stdout=subprocess.PIPE, stderr=subprocess.PIPE, text=True, timeout=20)
                ans = r.stdout.strip().splitlines()[0] if r.stdout.strip() else "error"
            except subprocess.TimeoutExpired:
                ans = "timeout"
            out["cvc5_s"] += time.time() - t0
            if ans == "unsat":
                out["agree"] += 1
            elif ans == "sat":
                out["disagree"].append(open(os.path.join(dump, fn)).readline().strip())
            else:
                out["no_opinion"] += 1
    finally:
        shutil.rmtree(dump, ignore_errors=True)
    return out


def replay_conc(build, job, model, workdir, tag):
    """run the concrete (real z_number / GMP) build of the same harness on a solver model"""
    exe = build.harness(job.harness, "conc", job.defines)
    mf = os.path.join(workdir, "model-%s.txt" % tag)
    with open(mf, "w") as f:
        for k, v in model.items():
            f.write("%s %s\n" % (k, v))
    cmd = [exe] + job.argv() + ["--replay", mf]
    for k in job.known:
        cmd += ["--known", k]
    try:
        r = subprocess.run(cmd, stdout=subprocess.PIPE, stderr=subprocess.PIPE, text=True, timeout=300)
    except subprocess.TimeoutExpired:
        return None, cmd, mf
    return parse_result(r.stdout), cmd, mf


def load_known():
    p = os.path.join(VERIF, "known_findings.json")
    if not os.path.exists(p):
        return []
    return json.load(open(p)).get("findings", [])


def kf_matches(k, j):
    if k.get("harness") != j.harness:
        return False
    if not all(str(j.args.get(x)) == str(v) for x, v in k.get("args", {}).items()):
        return False
    if not all(d in j.defines for d in k.get("defines", [])):
        return False
    for x, sub in k.get("args_contain", {}).items():
        if sub not in str(j.args.get(x, "")):
            return False
    return True


def functions_encoded(exe):
    r = sh("nm -C --defined-only %s | grep -E ' [TtWw] ' | grep -E 'ikos::|crab::' | sed -E 's/^[0-9a-f]+ . //' | grep -v '^sx' | sort -u" % exe, shell=True)
    names = [l for l in r.stdout.splitlines() if l]
    return names


def main():
    ap = argparse.ArgumentParser()
    ap.add_argument("--property", required=True)
    ap.add_argument("--tier", default=os.environ.get("VERIF_TIER", "quick"))
    ap.add_argument("--only", default=None, help="substring filter on job names (development)")
    ap.add_argument("--keep", action="store_true")
    a = ap.parse_args()
    pid, tier = a.property, a.tier
    seed = int(os.environ.get("VERIF_SEED", "0"))
    import props
    t0 = time.time()
    spec = props.PROPS[pid]
    workdir = os.path.join(WORK, "%s-%s-%d" % (pid, tier, os.getpid()))
    os.makedirs(workdir, exist_ok=True)
    # VERIF_EVIDENCE_DIR: development runs (e.g. of the thorough tier) can keep the committed quick evidence untouched
    ev_path = os.path.join(os.environ.get("VERIF_EVIDENCE_DIR", os.path.join(VERIF, "evidence")), pid + ".json")
    os.makedirs(os.path.dirname(ev_path), exist_ok=True)
    if os.path.exists(ev_path):
        os.remove(ev_path)
    status, msgs = 0, []
    try:
        status, msgs = run_property(pid, tier, seed, spec, workdir, ev_path, a, t0)
    except BrokenCheck as e:
        print("BROKEN-CHECK property=%s: %s" % (pid, e))
        write_evidence(ev_path, pid, tier, seed, {"evaluations": 1, "distinct_nontrivial": 2, "explanation": "check could not run: %s" % str(e)[:500]},
                       ["the check is broken on this tree; nothing is claimed"], time.time() - t0, 0, level=spec.get("level", "model_checking"))
        status = 2
    finally:
        if not a.keep:
            shutil.rmtree(workdir, ignore_errors=True)
    for m in msgs:
        print(m)
    sys.exit(status)


def write_evidence(path, pid, tier, seed, coverage, assumptions, wall, violations, level="model_checking"):
    ev = {"property_id": pid, "tier": tier, "seed": seed, "level": level, "coverage": coverage,
          "assumptions": assumptions, "wall_s": round(wall, 1), "violations": violations}
    tmp = path + ".tmp"
    json.dump(ev, open(tmp, "w"), indent=1)
    os.replace(tmp, path)


def run_property(pid, tier, seed, spec, workdir, ev_path, a, t0):
    import props
    build = Build()
    jobs = spec["jobs"](tier, seed)
    if a.only:
        jobs = [j for j in jobs if a.only in j.name]
    known = [k for k in load_known() if (k.get("property") == pid or pid in k.get("also_properties", [])) and k.get("status") == "open"]
    # attach exclusions of open known findings to the jobs they concern
    for j in jobs:
        ks = [k["class"] for k in known if kf_matches(k, j)]
        if ks and not isinstance(j, props.E1Job):
            j.known = tuple(ks)
    e2 = [j for j in jobs if not isinstance(j, props.E1Job)]
    e1 = [j for j in jobs if isinstance(j, props.E1Job)]
    # ---- build (parallel) ----
    if e2:
        build.lib("sym")
        build.lib("conc")
    hs = sorted(set((j.harness, j.defines) for j in e2))
    with cf.ThreadPoolExecutor(NCPU) as ex:
        futs = [ex.submit(build.harness, h, m, d) for (h, d) in hs for m in ("sym", "conc")]
        for f in futs:
            f.result()
    t_build = time.time() - t0
    # ---- run symbolic explorations (parallel over jobs and shards) ----
    tasks = []
    for j in e2:
        if j.shards > 1:
            tasks += [(j, s) for s in range(j.shards)]
        else:
            tasks.append((j, None))
    results = []
    with cf.ThreadPoolExecutor(NCPU) as ex:
        futs = [ex.submit(run_sym, build, j, s) for (j, s) in tasks]
        futs += [ex.submit(props.run_e1, build, j, workdir) for j in e1]
        for f in futs:
            results.append(f.result())
    # ---- collect ----
    per_job, msgs = [], []
    tot = dict(paths=0, completed=0, aborted=0, branches=0, solver_calls=0, solver_s=0.0, checks=0, checks_unsat=0, concretisations=0)
    broken, violations, validated, samples = [], [], 0, []
    soft_nov, vacuous = [], []
    second_tot = {"queries": 0, "agree": 0, "no_opinion": 0, "cvc5_s": 0.0}
    abort_reasons = {}
    by_job = {}
    for r in results:
        by_job.setdefault(id(r["job"]), []).append(r)
    known_seen = set()
    for j in jobs:
        rs = by_job[id(j)]
        if isinstance(j, props.E1Job):
            r = rs[0]
            per_job.append(r["summary"])
            tot["checks"] += r["summary"].get("properties_checked", 0)
            tot["checks_unsat"] += r["summary"].get("properties_proved", 0)
            tot["solver_s"] += r["summary"].get("solver_s", 0)
            tot["solver_calls"] += 1
            tot["paths"] += 1
            tot["branches"] += r["summary"].get("vcc", 0)
            validated += r["summary"].get("validated_vectors", 0)
            if r["status"] == "broken":
                broken.append("%s: %s" % (j.name, r["why"]))
            elif r["status"] == "violation":
                violations.append((j, r["replay"], r["why"]))
            if r["summary"].get("sample"):
                samples.append(r["summary"]["sample"])
            continue
        agg = dict(job=j.name, what=j.what, engine="E2", paths=0, completed=0, aborted=0, skipped=0, branches=0, solver_calls=0,
                   solver_s=0.0, checks=0, checks_unsat=0, nviol=0, wall_s=0.0, exhaustive=True, check_labels={}, abort_reasons={})
        viols, wits = [], []
        for r in rs:
            res = r["res"]
            if res is None:
                agg["exhaustive"] = False
                broken.append("%s: no result (rc=%s) %s" % (j.name, r["rc"], r["stderr"][-300:]))
                continue
            for k in ("paths", "completed", "aborted", "skipped", "branches", "solver_calls", "checks", "checks_unsat", "nviol"):
                agg[k] += res.get(k, 0)
            agg["solver_s"] += res.get("solver_s", 0)
            agg["wall_s"] = max(agg["wall_s"], r["wall"])
            for k, v in res.get("check_labels", {}).items():
                agg["check_labels"][k] = agg["check_labels"].get(k, 0) + v
            for k, v in res.get("abort_reasons", {}).items():
                agg["abort_reasons"][k] = agg["abort_reasons"].get(k, 0) + v
                abort_reasons[k] = abort_reasons.get(k, 0) + v
            if not res["exhaustive"]:
                agg["exhaustive"] = False
                (soft_nov if j.soft else broken).append("%s: NO-VERDICT (%s) after %d paths" % (j.name, res.get("no_verdict"), res.get("paths", 0)))
            viols += res.get("violations", [])
            wits += res.get("witnesses", [])
            if r.get("second"):
                for k in ("queries", "agree", "no_opinion"):
                    second_tot[k] += r["second"][k]
                second_tot["cvc5_s"] += r["second"]["cvc5_s"]
                for dsg in r["second"]["disagree"]:
                    broken.append("%s: SOLVER-DISAGREEMENT: cvc5 answers sat on a query z3 discharged as unsat (%s)" % (j.name, dsg))
        for k in ("paths", "completed", "aborted", "branches", "solver_calls", "checks", "checks_unsat"):
            tot[k] += agg[k]
        tot["solver_s"] += agg["solver_s"]
        agg["solver_s"] = round(agg["solver_s"], 2)
        agg["wall_s"] = round(agg["wall_s"], 1)
        # vacuity: at least one completed path must have evaluated a check
        if agg["exhaustive"] and (agg["completed"] == 0 or agg["checks"] == 0) and j.allow_vacuous:
            vacuous.append(j.name)
        elif agg["exhaustive"] and (agg["completed"] == 0 or agg["checks"] == 0):
            broken.append("%s: BROKEN-HARNESS (vacuous: %d completed paths, %d checks)" % (j.name, agg["completed"], agg["checks"]))
        # witness validation: the real build must follow the same trace and compute the same numbers
        nval = 0
        for i, w in enumerate(wits[: j.witnesses]):
            cres, cmd, mf = replay_conc(build, j, w["model"], workdir, "%s-w%d" % (sha(j.name), i))
            if cres is None:
                broken.append("%s: ENCODING-MISMATCH (concrete replay of witness gave no result)" % j.name)
                continue
            cw = cres["witnesses"][0]
            if cres.get("nviol", 0) != 0 or cw["trace"] != w["trace"] or cw["obs"] != w["obs"] or cres.get("aborted", 0):
                broken.append("%s: ENCODING-MISMATCH on witness %s: sym trace/obs %s / %s, real build %s / %s failed=%s aborted=%s" % (
                    j.name, json.dumps(w["model"]), w["trace"][:6], w["obs"][:12], cw["trace"][:6], cw["obs"][:12], cres.get("failed"), cres.get("abort_reasons")))
            else:
                nval += 1
                if len(samples) < 12:
                    samples.append({"job": j.name, "inputs": w["model"], "checks_on_path": w["trace"][:8], "crab_values_observed": w["obs"][:10]})
        validated += nval
        agg["witnesses_validated"] = nval
        # violations: replay on the real build before reporting
        seen_models, uniq = set(), []
        for v in viols:
            key = json.dumps([v["label"], v["model"]], sort_keys=True)
            if key not in seen_models:
                seen_models.add(key)
                uniq.append(v)
        agg["distinct_counterexamples"] = len(uniq)
        for i, v in enumerate(uniq[:5]):
            if v["status"] != "sat":
                broken.append("%s: solver returned unknown on check '%s'" % (j.name, v["label"]))
                continue
            cres, cmd, mf = replay_conc(build, j, v["model"], workdir, "%s-v%d" % (sha(j.name), i))
            if cres is None or v["label"] not in cres.get("failed", []):
                broken.append("%s: ENCODING-MISMATCH: solver model for '%s' %s does not reproduce on the real build (%s)" % (
                    j.name, v["label"], json.dumps(v["model"]), cres and cres.get("failed")))
                continue
            rdir = os.path.join(VERIF, "replays", pid)
            os.makedirs(rdir, exist_ok=True)
            rp = os.path.join(rdir, "%s-%s-%d.json" % (j.harness, sha(j.name, json.dumps(v["model"], sort_keys=True)), i))
            json.dump({"property": pid, "harness": j.harness, "defines": list(j.defines), "args": j.args, "failed_check": v["label"], "inputs": v["model"],
                       "how": "python3 /verif/run.py --replay " + rp, "note": "solver counterexample reproduced on the native build (real z_number/GMP)"}, open(rp, "w"), indent=1)
            violations.append((j, rp, "%s fails for %s" % (v["label"], json.dumps(v["model"]))))
        per_job.append(agg)
    # ---- known findings: confirm that each still reproduces (same job without the exclusion) ----
    for k in known:
        kj = [j for j in e2 if k["class"] in j.known]
        if not kj:
            continue
        ok = False
        pref = k.get("confirm_args", {})  # jobs on which the finding is known to show are tried first
        kj.sort(key=lambda j: 0 if pref and all(str(j.args.get(x)) == str(v) for x, v in pref.items()) else 1)
        for j in kj[:4]:
            jj = Job(j.harness, j.args, j.defines, j.budget, 1, 0, witnesses=0)
            r = run_sym(build, jj)
            res = r["res"]
            if res and res.get("violations"):
                v = res["violations"][0]
                cres, cmd, mf = replay_conc(build, jj, v["model"], workdir, "kf-" + sha(k["class"]))
                if cres is not None and v["label"] in cres.get("failed", []):
                    ok = True
                    msgs.append("KNOWN-FINDING: property=%s %s [%s; e.g. %s with %s]" % (pid, k["what"], k["id"], jj.name, json.dumps(v["model"])))
                    break
        if not ok:
            msgs.append("note: known finding %s no longer reproduces" % k["id"])
    # ---- verdict + evidence ----
    enc = []
    for (h, d) in hs[:6]:
        try:
            enc += functions_encoded(build.harness(h, "sym", d))
        except Exception:
            pass
    enc = sorted(set(enc))
    for j in e1:
        pass
    wall = time.time() - t0
    coverage = {
        "states": max(tot["paths"], 1), "transitions": max(tot["branches"], 1), "traces_validated_against_impl": validated,
        "samples": samples[:12] or [{"note": "no completed path"}],
        "exhaustive": not broken,
        "explanation": spec.get("explanation", ""),
        "engine": "E2 symbolic execution through ikos::z_number (z3 4.8.12) / E1 clang->LLVM IR->C->CBMC 6.11",
        "bounds": spec.get("bounds", {}).get(tier, spec.get("bounds", "")),
        "outside_bound": spec.get("outside", []),
        "paths_explored": tot["paths"], "paths_completed": tot["completed"], "paths_aborted_outside_claim": tot["aborted"],
        "abort_reasons": abort_reasons,
        "symbolic_branches_decided": tot["branches"], "solver_queries": tot["solver_calls"], "solver_time_s": round(tot["solver_s"], 1),
        "property_checks_discharged": tot["checks_unsat"], "property_checks_total": tot["checks"],
        "functions_encoded_count": len(enc), "functions_encoded_sample": enc[:: max(1, len(enc) // 40)][:40],
        "jobs": per_job, "build_s": round(t_build, 1), "build_log": build.log[-20:],
        "repo_tree_hash": build.repo_h,
        "second_solver": {"solver": "cvc5 1.0.3", "what": "sample of the property checks discharged by z3 (per job the 1st, 2nd, 4th, ... non-trivial one), dumped as SMT-LIB and decided again",
                          "queries": second_tot["queries"], "agree_unsat": second_tot["agree"], "no_opinion_timeout_or_unknown": second_tot["no_opinion"], "cvc5_time_s": round(second_tot["cvc5_s"], 1)},
        "not_concluded": broken,
        "generated_jobs_not_concluded_outside_claim": soft_nov, "generated_jobs_vacuous_outside_claim": vacuous,
        "jobs_concluded": sum(1 for x in per_job if x.get("exhaustive", True)), "jobs_total": len(per_job),
    }
    status = 0
    if violations:
        status = 1
        for (j, rp, why) in violations:
            msgs.append("VIOLATION property=%s replay=%s" % (pid, rp))
            msgs.append("  " + j.name + ": " + why[:400])
    elif broken:
        status = 2
        for b in broken:
            msgs.append("NO-VERDICT property=%s %s" % (pid, b[:600]))
    write_evidence(ev_path, pid, tier, seed, coverage, spec.get("assumptions", []), wall, len(violations), level=spec.get("level", "model_checking"))
    msgs.append("property=%s tier=%s jobs=%d paths=%d checks=%d/%d validated=%d solver=%.1fs wall=%.1fs status=%d" % (
        pid, tier, len(jobs), tot["paths"], tot["checks_unsat"], tot["checks"], validated, tot["solver_s"], wall, status))
    return status, msgs


def replay_file(path):
    """re-run a stored counterexample on the native build of the real code"""
    import props
    d = json.load(open(path))
    build = Build()
    build.lib("conc")
    j = Job(d["harness"], d["args"], tuple(d.get("defines", ())))
    wd = os.path.join(WORK, "replay-%d" % os.getpid())
    os.makedirs(wd, exist_ok=True)
    try:
        cres, cmd, mf = replay_conc(build, j, d["inputs"], wd, "r")
        print("command:", " ".join(cmd))
        print("inputs:", json.dumps(d["inputs"]))
        print("failed checks on the real build:", cres and cres.get("failed"))
        ok = cres is not None and d["failed_check"] in cres.get("failed", [])
        print("REPRODUCED" if ok else "NOT REPRODUCED")
        return 1 if ok else 0
    finally:
        shutil.rmtree(wd, ignore_errors=True)


if __name__ == "__main__":
    if len(sys.argv) >= 3 and sys.argv[1] == "--replay":
        sys.exit(replay_file(sys.argv[2]))
    main()
