"""Generator of operation histories for the dom harness (sym/h/dom.cpp).

A history is a comma separated list of operations `name.args[:c1:c2..]`; constants given after ':' are
concrete, '?' (or absent) = symbolic.  Operation kinds, variables and multiplicative coefficients are
enumerated here; every additive constant / bound that is left symbolic is decided by the solver for all
values.  The number of symbolic constants per history is capped (path explosion), the others get small
concrete values drawn from the seed.
"""
import random

NCONST = {"bnd": 2, "lb": 1, "ub": 1, "cst": 1, "cst1": 1, "asg": 1, "asgk": 1, "asg2": 1, "arik": 1, "sel": 1, "widt": 2}

INIT = ["bnd.0", "bnd.1", "lb.0", "ub.0", "lb.1", "ub.1", "asgk.0", "asgk.1",
        "cst.le.1.0.-1.1", "cst.le.-1.0.1.1", "cst.eq.1.0.-1.1", "cst.le.1.0.1.1", "cst.le.-1.0.-1.1",
        "asg.1.1.0", "asg.0.1.1", "asg.1.-1.0", "asg.1.2.0"]

ARITH = ["add", "sub", "mul", "sdiv", "udiv", "srem", "urem"]
BITW = ["and", "or", "xor", "shl", "lshr", "ashr"]


def transfer_ops(rich=True):
    T = []
    for r in ("le", "lt", "eq", "ne"):
        for (p, q) in ((1, -1), (1, 1), (-1, -1), (2, -1), (1, -2), (-2, 3)):
            T.append("cst.%s.%d.0.%d.1" % (r, p, q))
        for p in (1, -1, 2, -3):
            T.append("cst1.%s.%d.0" % (r, p))
    for p in (1, -1, 2, -2, 0, 3):
        T.append("asg.0.%d.1" % p)
        T.append("asg.0.%d.0" % p)
    T += ["asg2.0.1.0.1.1", "asg2.0.2.0.-1.1", "asg2.1.-1.0.1.1", "asgk.0"]
    for o in ARITH + BITW:
        for (v, w, u) in ((0, 0, 1), (0, 1, 1), (1, 0, 1), (0, 1, 0)):
            T.append("ari.%s.%d.%d.%d" % (o, v, w, u))
        T.append("arik.%s.0.1" % o)
        T.append("arik.%s.0.0" % o)
    for r in ("le", "eq", "ne", "lt"):
        T.append("sel.0.%s.1.0.1" % r)
        T.append("sel.0.%s.0.1.0" % r)
        T.append("sel.1.%s.1.0.1" % r)
    T += ["fgt.0", "fgt.1", "fgtv.0.1", "prj.0", "prj.1", "ren.0.2", "ren.1.3", "exp.0.2", "exp.1.2", "norm", "min", "top"]
    return T


BINOPS = ["join", "joineq", "meet", "meeteq", "wid", "widt", "nar", "leq"]


def opname(op):
    return op.split(":")[0].split(".")[0]


def with_consts(ops, rng, nsym, prefer_last=True):
    """attach constant specs: at most nsym symbolic constants, preferring the later operations"""
    slots = []
    for i, op in enumerate(ops):
        for k in range(NCONST.get(opname(op), 0)):
            slots.append((i, k))
    order = list(range(len(slots)))
    rng.shuffle(order)
    if prefer_last:
        order.sort(key=lambda j: -slots[j][0] + rng.random() * 1.5)
    symset = set(order[:nsym])
    out = []
    j = 0
    for i, op in enumerate(ops):
        n = NCONST.get(opname(op), 0)
        cs = []
        lo = None
        for k in range(n):
            if j in symset:
                cs.append("?")
            else:
                nm = opname(op)
                if nm == "bnd" and k == 0:
                    lo = rng.randint(-4, 3)
                    cs.append(str(lo))
                elif nm == "bnd" and k == 1:
                    cs.append(str((lo if lo is not None else -2) + rng.randint(0, 6)))
                elif nm == "arik":
                    cs.append(str(rng.choice([1, 2, 3, -1, -2, 2, 1])))
                else:
                    cs.append(str(rng.randint(-4, 6)))
            j += 1
        out.append(op + ("".join(":" + c for c in cs) if cs else ""))
    return ",".join(out)


def histories(rng, count, nsym, focus=None):
    """seeded sample of histories; each is (kind, seq).  focus: restrict the operation under test"""
    T = transfer_ops()
    out = []
    seen = set()
    tries = 0
    while len(out) < count and tries < count * 20:
        tries += 1
        shape = rng.choice(["U", "U", "U", "B", "B", "C", "W"])
        ha = rng.sample(INIT, rng.choice([1, 1, 2]))
        hb = rng.sample(INIT, rng.choice([1, 2]))
        if shape == "U":
            ops = ha + [rng.choice(T)]
        elif shape == "B":
            b = rng.choice(BINOPS)
            ops = hb + ["swp"] + ha + [b] + (["swp", "leq"] if rng.random() < 0.3 else [])
        elif shape == "C":  # copy, then mutate one side (value semantics)
            ops = ha + [rng.choice(["cpy", "cpyc"])] + ([] if rng.random() < 0.5 else ["swp"]) + [rng.choice(T)]
        else:  # widening chain
            inc = rng.choice(["arik.add.0.0", "arik.add.1.1", "asg.0.1.0", "asg2.0.1.0.1.1", "arik.sub.0.0", "asg.1.1.0"])
            w = rng.choice(["wid", "wid", "widt"])
            ops = ha + ["cpy", inc, w] + (["cpy", inc, w] if rng.random() < 0.4 else []) + ["swp", "leq"]
        if focus and not any(opname(o) in focus or o.split(":")[0] in focus for o in ops):
            continue
        s = with_consts(ops, rng, nsym)
        key = ",".join(o.split(":")[0] for o in ops)
        if key in seen:
            continue
        seen.add(key)
        out.append((shape, s))
    return out


# curated core: patterns that exercise the mechanisms named in the properties' anchors
CORE = [
    # constraint propagation incl. strict inequalities / disequations / non-unit coefficients
    "bnd.0:?:?,cst1.ne.2.0:?", "bnd.0:?:?,cst1.lt.2.0:?", "bnd.0:?:?,cst1.le.-3.0:?", "bnd.0:?:?,cst1.eq.2.0:?",
    "bnd.0:0:?,bnd.1:?:5,cst.le.1.0.-1.1:?", "bnd.0:?:4,bnd.1:-1:?,cst.ne.1.0.-2.1:?", "bnd.0:-2:?,bnd.1:?:3,cst.lt.2.0.-1.1:?",
    "bnd.0:?:6,bnd.1:0:?,cst.eq.1.0.1.1:?", "lb.0:?,ub.1:?,cst.le.-1.0.-1.1:?", "bnd.0:1:?,bnd.1:?:4,cst.eq.-2.0.3.1:1",
    # disequations between two variables (unit coefficients) after an order / equality between them is known
    "cst.le.1.0.-1.1:?,cst.ne.1.0.-1.1:?", "cst.eq.1.0.-1.1:0,cst.ne.1.0.-1.1:?", "bnd.0:?:5,asgk.1:5,cst.ne.1.0.-1.1:?", "cst.le.-1.0.1.1:?,cst.ne.-1.0.1.1:?",
    "bnd.0:0:?,bnd.1:?:9,cst.le.1.0.-1.1:0,cst.ne.-1.0.1.1:?",
    # assignments and arithmetic
    "bnd.0:?:?,asg.1.2.0:?", "bnd.0:?:?,asg.0.-1.0:?", "bnd.0:?:?,bnd.1:0:3,asg2.0.2.0.-1.1:?", "cst.le.1.0.-1.1:?,asg.0.1.0:?",
    "cst.le.1.0.-1.1:?,asg.1.1.0:?,cst1.le.1.1:?", "bnd.0:?:?,bnd.1:1:3,ari.mul.0.0.1", "bnd.0:?:?,bnd.1:-3:-1,ari.sdiv.0.0.1",
    "bnd.0:?:?,arik.sdiv.1.0:-2", "bnd.0:?:?,arik.srem.1.0:3", "bnd.0:0:?,bnd.1:1:?,ari.udiv.0.0.1", "bnd.0:?:?,arik.mul.0.0:?",
    "bnd.0:?:?,bnd.1:0:2,ari.ashr.0.0.1", "bnd.0:?:?,arik.shl.1.0:?", "bnd.0:?:9,bnd.1:?:7,ari.and.0.0.1", "bnd.0:0:9,bnd.1:?:12,ari.xor.0.0.1",
    "bnd.0:?:11,bnd.1:?:6,ari.or.1.0.1", "bnd.0:?:?,arik.lshr.1.0:?",
    "bnd.0:?:?,bnd.1:?:3,sel.0.le.1.0.1:?", "cst.le.1.0.-1.1:?,sel.1.ne.0.0.1:?",
    # forget / project / rename / expand with relational information present
    "cst.le.1.0.-1.1:?,lb.1:?,fgt.1", "cst.eq.1.0.-1.1:?,bnd.0:?:?,prj.1", "cst.le.1.0.-1.1:?,bnd.0:?:?,ren.0.2", "asg.1.1.0:?,bnd.0:?:?,exp.1.2",
    # lattice operations, one operand relational
    "bnd.0:0:3,bnd.1:0:?,swp,bnd.0:?:10,asg.1.1.0:?,join", "bnd.0:?:3,bnd.1:0:8,swp,bnd.0:5:?,asg.1.1.0:?,joineq",
    "bnd.0:?:10,asg.1.1.0:?,swp,bnd.0:0:?,bnd.1:0:8,join", "cst.le.1.0.-1.1:?,swp,cst.le.-1.0.1.1:?,meet", "bnd.0:?:?,swp,cst.le.1.0.-1.1:?,lb.1:?,meeteq",
    "bnd.0:?:5,cpy,arik.add.0.0:?,wid,swp,leq", "bnd.0:0:?,asg.1.1.0:?,cpy,arik.add.0.0:?,arik.add.1.1:1,wid,swp,leq",
    "bnd.0:0:?,cpy,arik.add.0.0:?,widt:?:?", "bnd.0:?:?,cpy,arik.add.0.0:1,wid,cpy,swp,ub.0:?,swp,nar",
    "bnd.0:?:?,swp,bnd.0:?:?,leq", "cst.le.1.0.-1.1:?,swp,cst.le.1.0.-1.1:?,leq", "bnd.0:?:?,cst.le.1.0.-1.1:2,swp,bnd.0:?:?,leq",
    # copies, then mutation of either side
    "bnd.0:?:?,asg.1.1.0:?,cpy,arik.add.0.0:?", "cst.le.1.0.-1.1:?,cpy,swp,fgt.0", "bnd.0:?:?,cpyc,cst1.le.1.0:?", "asg.1.1.0:?,cpy,swp,asg.0.2.1:?,norm",
    "bnd.0:?:?,cpy,top", "bnd.0:?:?,cst.le.1.0.-1.1:?,cpy,swp,ren.0.2",
]
# several copies of one value (in particular of a widening result, which the copy-on-write wrapper stores twice),
# each mutated in turn, and the value used again as the left operand of a widening
COW_CORE = [
    "bnd.0:0:?,cpy,arik.add.0.0:?,wid,cpy,cst1.le.1.1:?,swp,cpy,cst1.le.1.0:?",
    "bnd.0:0:?,cpy,arik.add.0.0:?,wid,cpy,cst1.le.1.1:?,swp,cpy,swp,cst1.le.-1.0:?",
    "bnd.0:0:?,bnd.1:0:?,cpy,arik.add.0.0:1,wid,cpy,asg.1.1.0:?,swp,cpy,arik.add.0.0:?,swp,wid",
    "bnd.0:?:?,cpy,cst1.le.1.1:?,swp,cpy,cst1.le.1.0:?,swp,join",
    "bnd.0:0:?,cpy,arik.add.0.0:?,widt:?:?,cpy,fgt.0,swp,cpy,cst1.le.1.0:?",
    "bnd.0:?:?,swp,bnd.0:?:?,join,cpy,cst1.le.1.1:?,swp,cpy,cst1.le.1.0:?",
]


def core(nsym_cap=4):
    return list(CORE)


def limit_sym(seq, n, rng):
    """keep only the last n symbolic constants of a history; earlier ones get small concrete values"""
    ops = seq.split(",")
    total = sum(o.count("?") for o in ops)
    drop = max(0, total - n)
    out = []
    for o in ops:
        parts = o.split(":")
        lo = None
        for i in range(1, len(parts)):
            if parts[i] == "?" and drop > 0:
                drop -= 1
                if opname(o) == "bnd" and i == 1:
                    lo = rng.randint(-3, 2)
                    parts[i] = str(lo)
                elif opname(o) == "bnd" and i == 2:
                    base = lo if lo is not None else (int(parts[1]) if parts[1] not in ("?",) else -1)
                    parts[i] = str(base + rng.randint(1, 5))
                else:
                    parts[i] = str(rng.randint(-2, 4))
        out.append(":".join(parts))
    return ",".join(out)
